"""Deterministic thread scheduler (DESIGN.md section 3).

Real `threading.Thread`s, baton passing: exactly one simulated thread runs, all others are parked on
their own semaphore.  `sys.monitoring` (PEP 669) delivers a callback before every source line or every
bytecode instruction of the library's code objects, in the executing thread; parking the thread inside
that callback is a pre-emption.  Who runs next is decided only by the run record's switch list.
"""

from __future__ import annotations

import gc
import os
import sys
import threading
import types

from .core import HarnessError, repo_path

mon = sys.monitoring
TOOL = 3
E = mon.events

_real_Lock = threading.Lock
_real_RLock = threading.RLock
_real_Semaphore = threading.Semaphore


class StepBudgetExceeded(BaseException):
    """Raised inside a simulated thread whose call ran 10x longer than alone (deterministic: steps, not time)."""


class SimDeadlock(BaseException):
    """Raised inside a simulated thread that can never acquire a library lock: it already holds it (non-reentrant
    lock re-acquired by a nested call) or every live thread waits for a lock held by another (deterministic)."""


class _TLS(threading.local):
    tid = None


_tls = _TLS()
_codes: list[types.CodeType] = []
_code_ids: set[int] = set()
_mode: str | None = None
_lib_prefix = ""
_cur: "Sim | None" = None
_loc_ids: dict = {}


def lib_codes() -> list[types.CodeType]:
    """Every code object of the library: all live functions defined under $VERIF_REPO/markdown_it, and
    recursively the code constants inside them (closures, lambdas, comprehensions)."""
    prefix = os.path.join(repo_path(), "markdown_it") + os.sep
    seen: dict[int, types.CodeType] = {}

    def add(co):
        if id(co) in seen or not co.co_filename.startswith(prefix):
            return
        seen[id(co)] = co
        for c in co.co_consts:
            if isinstance(c, types.CodeType):
                add(c)

    for o in gc.get_objects():
        if isinstance(o, types.FunctionType):
            add(o.__code__)
    return sorted(seen.values(), key=lambda c: (c.co_filename, c.co_firstlineno, c.co_name))


def setup() -> None:
    """Once per process (inherited over fork): claim the tool id, collect code objects."""
    global _codes, _code_ids, _lib_prefix
    if _codes:
        return
    if mon.get_tool(TOOL) is None:
        mon.use_tool_id(TOOL, "verif-sched")
    _lib_prefix = os.path.join(repo_path(), "markdown_it") + os.sep
    _codes = lib_codes()
    _code_ids = {id(c) for c in _codes}
    mon.register_callback(TOOL, E.LINE, _on_line)
    mon.register_callback(TOOL, E.INSTRUCTION, _on_instr)


def selfcheck_walker(workload) -> int:
    """Run `workload()` with a global PY_START probe; every library code object entered must be in the
    walker's set.  Returns the number of distinct library code objects entered."""
    entered: dict[int, types.CodeType] = {}

    def on_start(code, offset):
        if code.co_filename.startswith(_lib_prefix):
            entered[id(code)] = code
        return mon.DISABLE

    mon.register_callback(TOOL, E.PY_START, on_start)
    mon.set_events(TOOL, E.PY_START)
    try:
        workload()
    finally:
        mon.set_events(TOOL, 0)
        mon.register_callback(TOOL, E.PY_START, None)
        mon.restart_events()
    missed = [c for i, c in entered.items() if i not in _code_ids]
    if missed:
        raise HarnessError("code-object walker missed: " + ", ".join(
            f"{c.co_filename}:{c.co_firstlineno}:{c.co_name}" for c in missed[:5]))
    return len(entered)


def set_mode(mode: str | None) -> None:
    """LINE, INSTRUCTION or None (events off) on all library code objects."""
    global _mode
    if mode == _mode:
        return
    ev = {"LINE": E.LINE, "INSTRUCTION": E.INSTRUCTION, None: 0}[mode]
    for c in _codes:
        mon.set_local_events(TOOL, c, ev)
    _mode = mode


def code_name(code_id: int) -> str:
    """Process-independent name of a library code object (for ordering; ids differ between processes)."""
    global _names
    if not _names:
        _names = {id(c): f"{c.co_filename[len(_lib_prefix):]}:{c.co_firstlineno}:{c.co_name}" for c in _codes}
    return _names.get(code_id, "?")


_names: dict = {}


def loc_str(code, arg) -> str:
    fn = code.co_filename[len(_lib_prefix):]
    return f"{fn}:{code.co_name}:{arg}"


# --------------------------------------------------------------------------- callbacks
def _on_line(code, line):
    tid = _tls.tid
    if tid is None:
        return
    _cur.step(tid, code, line)


def _on_instr(code, offset):
    tid = _tls.tid
    if tid is None:
        return
    _cur.step(tid, code, offset)


class Sim:
    """One simulated execution: N threads, a switch list, step budgets."""

    def __init__(self, n_threads: int, switches: list, budgets: list[int], record_trace: bool = False):
        self.n = n_threads
        self.switches = sorted((int(a), int(t)) for a, t in switches)  # (global step, target pick)
        self.sw_i = 0
        self.next_at = self.switches[0][0] if self.switches else -1
        self.gstep = 0
        self.steps = [0] * n_threads
        self.budgets = list(budgets)
        self.sems = [_real_Semaphore(0) for _ in range(n_threads)]
        self.live = [True] * n_threads
        self.in_call = [False] * n_threads
        self.fired: list = []          # (gstep, from, to, location)
        self.overlapped = False
        self.done = _real_Semaphore(0)
        self.errors: list = []
        self.record_trace = record_trace
        self.trace: list = []          # location ids per step (single-thread tracing only)
        self.lock_ops = 0
        self.lock_contended = 0
        self._spin = (-1, 0)            # (gstep of the last contended yield, consecutive yields without a step)
        self.watch = None               # shared_state.Watch polled before every step (single-thread tracing only)
        self.sampler = None             # (callable, stride): called every `stride` steps (single-thread tracing only)
        self._in_probe = False

    # -- called from the monitoring callback, in the running simulated thread
    def step(self, tid, code, arg):
        if self._in_probe:
            return                      # library code reached from inside a harness probe is not a step
        g = self.gstep = self.gstep + 1
        s = self.steps[tid] = self.steps[tid] + 1
        if self.record_trace:
            self.trace.append((id(code), arg))
        if self.watch is not None:
            self._in_probe = True
            try:
                self.watch.poll(g)
            finally:
                self._in_probe = False
        if self.sampler is not None and g % self.sampler[1] == 0:
            self._in_probe = True
            try:
                self.sampler[0]()
            finally:
                self._in_probe = False
        if s > self.budgets[tid]:
            self.budgets[tid] = s + 20_000   # raise again if the unwinding code keeps spinning
            raise StepBudgetExceeded(f"thread {tid} exceeded its step budget")
        if g == self.next_at:
            while self.sw_i < len(self.switches) and self.switches[self.sw_i][0] <= g:
                pick = self.switches[self.sw_i][1]
                self.sw_i += 1
            self.next_at = self.switches[self.sw_i][0] if self.sw_i < len(self.switches) else -1
            others = [t for t in range(self.n) if self.live[t] and t != tid]
            if others:
                to = others[pick % len(others)]
                if any(self.in_call[t] for t in others) and self.in_call[tid]:
                    self.overlapped = True
                self.fired.append((g, tid, to, loc_str(code, arg)))
                self._handoff(tid, to)

    def _handoff(self, frm, to):
        self.sems[to].release()
        self.sems[frm].acquire()

    def yield_to(self, frm, to):
        """Cooperative yield (contended simulated lock)."""
        if to == frm:
            raise SimDeadlock(f"thread {frm} waits for a non-reentrant lock it already holds")
        if to is None or not self.live[to]:
            others = [t for t in range(self.n) if self.live[t] and t != frm]
            if not others:
                raise SimDeadlock(f"thread {frm} waits for a lock whose holder is gone")
            to = others[0]
        g, k = self._spin
        k = k + 1 if g == self.gstep else 1
        self._spin = (self.gstep, k)
        if k > 2 * self.n + 2:
            # every hand-over came straight back without a single library step in between: a lock cycle
            raise SimDeadlock(f"thread {frm}: all live threads wait for locks held by each other")
        self.lock_contended += 1
        self._handoff(frm, to)

    # -- thread bodies
    def _thread_main(self, tid, fn):
        _tls.tid = None
        self.sems[tid].acquire()          # wait for the baton
        _tls.tid = tid
        try:
            fn(tid)
        except BaseException as e:  # noqa: BLE001
            self.errors.append((tid, repr(e)))
        finally:
            _tls.tid = None
            self.live[tid] = False
            nxt = [t for t in range(self.n) if self.live[t]]
            if nxt:
                self.sems[nxt[0]].release()   # exit hands the baton to the lowest live thread
            else:
                self.done.release()

    def run(self, fns, wall_watchdog: float = 120.0):
        global _cur
        _cur = self
        threads = [threading.Thread(target=self._thread_main, args=(t, fns[t]), name=f"sim-{t}", daemon=True)
                   for t in range(self.n)]
        for th in threads:
            th.start()
        self.sems[0].release()
        ok = self.done.acquire(timeout=wall_watchdog)
        if not ok:
            raise HarnessError("scheduler watchdog: simulated threads did not finish (un-intercepted blocking?)")
        for th in threads:
            th.join(timeout=10)
        _cur = None
        if self.errors:
            raise HarnessError(f"simulated thread raised outside a call: {self.errors[:2]}")


# --------------------------------------------------------------------------- scheduler-aware locks
class SimLock:
    """threading.Lock as seen by library modules: contended acquire = hand the baton to the owner."""

    def __init__(self):
        self._real = _real_Lock()
        self._owner = None

    def acquire(self, blocking=True, timeout=-1):
        tid = _tls.tid
        if tid is None or _cur is None:
            return self._real.acquire(blocking, timeout)
        _cur.lock_ops += 1
        while True:
            if self._real.acquire(False):
                self._owner = tid
                return True
            if not blocking:
                return False
            _cur.yield_to(tid, self._owner)

    def release(self):
        self._owner = None
        self._real.release()

    def locked(self):
        return self._real.locked()

    __enter__ = acquire

    def __exit__(self, *a):
        self.release()


class SimRLock:
    def __init__(self):
        self._lock = SimLock()
        self._holder = None
        self._count = 0

    def _me(self):
        tid = _tls.tid
        return ("sim", tid) if tid is not None else ("os", threading.get_ident())

    def acquire(self, blocking=True, timeout=-1):
        me = self._me()
        if self._holder == me:
            self._count += 1
            return True
        if self._lock.acquire(blocking, timeout):
            self._holder = me
            self._count = 1
            return True
        return False

    def release(self):
        if self._holder != self._me():
            raise RuntimeError("cannot release un-acquired lock")
        self._count -= 1
        if self._count == 0:
            self._holder = None
            self._lock.release()

    __enter__ = acquire

    def __exit__(self, *a):
        self.release()


class _ThreadingShim(types.ModuleType):
    """What `threading` looks like from inside library modules."""

    def __init__(self):
        super().__init__("threading")
        self.__dict__.update(threading.__dict__)
        self.Lock = SimLock
        self.RLock = SimRLock


def import_library_with_lock_seam() -> int:
    """Import markdown_it with threading.Lock/RLock replaced by scheduler-aware versions for the duration of
    the import (module-level locks), then point the library modules' `threading` at a shim (run-time locks).
    Returns the number of library modules that reference threading (0 today)."""
    if "markdown_it" in sys.modules:
        raise HarnessError("lock seam must be installed before markdown_it is imported")
    threading.Lock, threading.RLock = SimLock, SimRLock
    try:
        import markdown_it  # noqa: F401
        import markdown_it.tree  # noqa: F401
        import markdown_it.cli.parse  # noqa: F401
    finally:
        threading.Lock, threading.RLock = _real_Lock, _real_RLock
    shim = _ThreadingShim()
    n = 0
    prefix = os.path.join(repo_path(), "markdown_it") + os.sep
    for name, m in list(sys.modules.items()):
        f = getattr(m, "__file__", None) or ""
        if not f.startswith(prefix):
            continue
        d = m.__dict__
        if d.get("threading") is threading:
            d["threading"] = shim
            n += 1
        for k in ("Lock", "RLock"):
            if d.get(k) in (_real_Lock, _real_RLock, SimLock, SimRLock):
                d[k] = SimLock if k == "Lock" else SimRLock
                n += 1
    return n
