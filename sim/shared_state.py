"""Shared-state observation for the C13 engine (DESIGN.md section 18).

`fingerprint(md)` walks everything mutable that outlives a call - the MarkdownIt instance (parsers, rulers,
renderer, options, anything a change may park on them) and the module / class level state of every library
module - and returns {access chain: signature}.  Two fingerprints that differ around a call mean "this call
wrote shared state".  No internal name is hard-wired: the walk is structural, so a memo that a change adds
anywhere (instance attribute, module global, class attribute, functools cache) is seen.

`Watch` turns the changed chains into cheap per-step probes so that a second, traced execution of the same
call can say *at which steps* the shared state changed - these are the writer's race windows, and the code
objects they lie in are where a concurrent reader is most likely to be hurt.  The information is used only to
bias where pre-emptions are placed; no verdict depends on it.
"""

from __future__ import annotations

import os
import sys
import types

from .core import repo_path

SCALARS = (str, int, float, bool, type(None), bytes)
_MISSING = object()
BIG = 64          # containers larger than this are recorded by (id, len) only


_PREFIX: str | None = None


def _prefix() -> str:
    global _PREFIX
    if _PREFIX is None:
        _PREFIX = os.path.join(repo_path(), "markdown_it") + os.sep
    return _PREFIX


def _is_lib_module(m) -> bool:
    return (getattr(m, "__file__", None) or "").startswith(_prefix())


def roots(md) -> list:
    out = [(("root", "md"), md)]
    for name, m in sorted(sys.modules.items()):
        if (name == "markdown_it" or name.startswith("markdown_it.")) and m is not None and _is_lib_module(m):
            out.append((("mod", name), m))
    return out


def _sig_scalar(o):
    if isinstance(o, str) and len(o) > 64:
        return ("v", "str", len(o), hash(o))
    return ("v", type(o).__name__, o)


def fingerprint(md, cap: int = 20000) -> dict:
    out: dict = {}
    seen: set[int] = set()
    stack = [(o, (r,)) for r, o in roots(md)]
    n = 0
    while stack:
        o, chain = stack.pop()
        n += 1
        if n > cap:
            break
        if isinstance(o, SCALARS):
            out[chain] = _sig_scalar(o)
            continue
        i = id(o)
        if i in seen:
            continue
        seen.add(i)
        if isinstance(o, dict):
            out[chain] = ("d", i, len(o))
            if len(o) <= BIG:
                for k, v in o.items():
                    if isinstance(k, SCALARS):
                        stack.append((v, chain + (("item", k),)))
        elif isinstance(o, (list, tuple)):
            out[chain] = ("l", i, len(o))
            if len(o) <= BIG:
                for k, v in enumerate(o):
                    stack.append((v, chain + (("idx", k),)))
        elif isinstance(o, (set, frozenset)):
            out[chain] = ("s", i, len(o))
        elif isinstance(o, types.ModuleType):
            if _is_lib_module(o) and len(chain) == 1:
                for k, v in vars(o).items():
                    if not (k.startswith("__") and k.endswith("__")) and not isinstance(v, types.ModuleType):
                        stack.append((v, chain + (("attr", k),)))
        elif isinstance(o, type):
            m = sys.modules.get(getattr(o, "__module__", ""), None)
            if m is not None and _is_lib_module(m):
                for k, v in vars(o).items():
                    if k in ("__dict__", "__weakref__", "__doc__", "__module__", "__qualname__", "__annotations__",
                             "__slots__", "__orig_bases__", "__parameters__", "__dataclass_fields__",
                             "__dataclass_params__", "__match_args__", "__abstractmethods__", "_abc_impl",
                             "__firstlineno__", "__static_attributes__"):
                        continue
                    if isinstance(v, (types.FunctionType, property, staticmethod, classmethod, types.MemberDescriptorType,
                                      types.GetSetDescriptorType, types.WrapperDescriptorType,
                                      types.MethodDescriptorType)):
                        continue
                    stack.append((v, chain + (("attr", k),)))
        elif isinstance(o, (types.FunctionType, types.BuiltinFunctionType, types.MethodType)) or \
                type(o).__name__ in ("_lru_cache_wrapper", "cached_property"):
            ci = getattr(o, "cache_info", None)
            if ci is not None:
                try:
                    out[chain] = ("c", ci().currsize)
                except Exception:  # noqa: BLE001
                    pass
        else:
            cls = type(o)
            m = sys.modules.get(getattr(cls, "__module__", ""), None)
            if m is not None and _is_lib_module(m):
                out[chain] = ("o", i)
                d = getattr(o, "__dict__", None)
                if isinstance(d, dict):
                    for k, v in d.items():
                        stack.append((v, chain + (("attr", k),)))
                for c in cls.__mro__:
                    for k in getattr(c, "__slots__", ()) or ():
                        if isinstance(k, str):
                            v = getattr(o, k, _MISSING)
                            if v is not _MISSING:
                                stack.append((v, chain + (("attr", k),)))
            else:
                ci = getattr(o, "cache_info", None)
                if callable(ci):
                    try:
                        out[chain] = ("c", ci().currsize)
                    except Exception:  # noqa: BLE001
                        pass
    return out


def changed_chains(a: dict, b: dict) -> list:
    return sorted((c for c in set(a) | set(b) if a.get(c) != b.get(c)), key=repr)


def shrunk(a: dict, b: dict) -> bool:
    """Did any sized object get smaller between two fingerprints (an eviction / a reset of a bounded store)?"""
    for c, sb in b.items():
        sa = a.get(c)
        if sa is None or sa[0] != sb[0]:
            continue
        if sb[0] in ("d", "l", "s") and sb[2] < sa[2]:
            return True
        if sb[0] == "c" and sb[1] < sa[1]:
            return True
    return False


# --------------------------------------------------------------------------- cheap per-step probes
def _step(o, st):
    kind, k = st
    if kind == "attr":
        return getattr(o, k, _MISSING)
    if kind == "item":
        return o.get(k, _MISSING) if isinstance(o, dict) else _MISSING
    if kind == "idx":
        return o[k] if isinstance(o, (list, tuple)) and k < len(o) else _MISSING
    return _MISSING


def _sig(v):
    if v is _MISSING:
        return None
    if isinstance(v, SCALARS):
        return v if not isinstance(v, str) or len(v) < 64 else hash(v)
    if isinstance(v, (dict, list, set, frozenset, tuple)):
        return (id(v), len(v))
    ci = getattr(v, "cache_info", None)
    if callable(ci):
        try:
            return ci().currsize
        except Exception:  # noqa: BLE001
            return id(v)
    return id(v)


class Watch:
    """Per-step probes for the chains that a call was seen to change, resolved on a (fresh) twin *before* the call:
    each probe is (deepest object that already exists, next access step)."""

    def __init__(self, md, chains: list):
        rmap = {r: o for r, o in roots(md)}
        probes = {}
        for chain in chains:
            o = rmap.get(chain[0], _MISSING)
            if o is _MISSING:
                continue
            j = 1
            while j < len(chain):
                nxt = _step(o, chain[j])
                if nxt is _MISSING or isinstance(nxt, SCALARS) or j == len(chain) - 1:
                    break
                o = nxt
                j += 1
            if j < len(chain):
                probes[(id(o), chain[j])] = (o, chain[j])
            if isinstance(o, (dict, list, set)):
                probes[(id(o), None)] = (o, None)
        self.probes = list(probes.values())[:64]
        self.last = self._read()
        self.writes: list[int] = []

    def _read(self):
        return [(_sig(o) if st is None else _sig(_step(o, st))) for o, st in self.probes]

    def poll(self, step: int) -> None:
        """Called before the instruction/line of `step` executes: a difference was made by step-1."""
        cur = [(_sig(o) if st is None else _sig(_step(o, st))) for o, st in self.probes]
        if cur != self.last:
            self.last = cur
            self.writes.append(step - 1)


# --------------------------------------------------------------------------- process-global library state
_BASE: list | None = None


def snapshot_module_state() -> int:
    """Remember the library's module- and class-level state as it is now (after the fixed warm-up).  `reset_module_state`
    puts it back before a run, so that a run is a function of its record alone even when the tree under test keeps
    process-global memos (functools caches, module dicts, rebinding globals): what one run of a worker parsed must not
    change the step counts of the next.  Returns the number of remembered places."""
    global _BASE
    import copy
    base: list = []
    seen: set[int] = set()

    def scan(owner, d):
        for k, v in list(d.items()):
            if k.startswith("__") and k.endswith("__"):
                continue
            if isinstance(v, types.ModuleType):
                continue
            cc = getattr(v, "cache_clear", None)
            if callable(cc):
                if id(v) not in seen:
                    seen.add(id(v))
                    base.append(("cache", v))
                continue
            if isinstance(v, type):
                m = sys.modules.get(getattr(v, "__module__", ""), None)
                if m is not None and _is_lib_module(m) and id(v) not in seen:
                    seen.add(id(v))
                    scan(v, {a: b for a, b in vars(v).items()
                             if not isinstance(b, (types.FunctionType, property, staticmethod, classmethod,
                                                   types.MemberDescriptorType, types.GetSetDescriptorType,
                                                   types.WrapperDescriptorType, types.MethodDescriptorType))})
                continue
            if isinstance(v, (types.FunctionType, types.BuiltinFunctionType)):
                continue
            if isinstance(v, SCALARS):
                base.append(("attr", owner, k, v))
            elif isinstance(v, (dict, list, set)):
                if id(v) not in seen:
                    seen.add(id(v))
                    base.append(("cont", v, copy.copy(v)))
                base.append(("attr", owner, k, v))

    for name, m in sorted(sys.modules.items()):
        if (name == "markdown_it" or name.startswith("markdown_it.")) and m is not None and _is_lib_module(m):
            scan(m, vars(m))
    _BASE = base
    return len(base)


def reset_module_state() -> int:
    """Put the remembered module/class-level state back; returns how many places had changed."""
    changed = 0
    for e in _BASE or ():
        if e[0] == "cache":
            try:
                e[1].cache_clear()          # always: not counted as "changed" (a warm functools cache is the normal case)
            except Exception:  # noqa: BLE001
                pass
        elif e[0] == "cont":
            _, obj, saved = e
            if obj != saved:
                changed += 1
                obj.clear()
                if isinstance(obj, dict):
                    obj.update(saved)
                elif isinstance(obj, list):
                    obj.extend(saved)
                else:
                    obj.update(saved)
        else:
            _, owner, k, v = e
            cur = owner.__dict__.get(k, _MISSING) if isinstance(owner, type) else getattr(owner, k, _MISSING)
            if cur is not v and not (isinstance(v, SCALARS) and cur == v and type(cur) is type(v)):
                changed += 1
                try:
                    setattr(owner, k, v)
                except (AttributeError, TypeError):
                    pass
    return changed
