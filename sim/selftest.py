"""Stand-alone determinism self-test (DESIGN.md 2.5): ./check <id> --selftest-determinism N

Runs indices 0..N-1 are executed in fresh interpreters three times: (A) 16 processes, interleaved partition,
PYTHONHASHSEED=h; (B) 5 processes, contiguous partition, reverse order inside, PYTHONHASHSEED=h; (C) 7 processes,
PYTHONHASHSEED=h+1.  All event-log digests must agree pairwise.  Exit 0 = deterministic, 2 = mismatch.
"""

from __future__ import annotations

import json
import time
from concurrent.futures import ThreadPoolExecutor

from . import core


def _run(engine, seed, tier, chunks, hashseed):
    out: dict[int, str] = {}
    with ThreadPoolExecutor(max_workers=len(chunks)) as ex:
        for d in ex.map(lambda c: core.fresh_digests(engine.prop, seed, tier, c, hashseed, timeout=7200) if c else {}, chunks):
            out.update(d)
    return out


def determinism(engine, seed: int, tier: str, n: int, hashseed: str) -> int:
    t0 = time.time()
    idx = list(range(n))
    a = _run(engine, seed, tier, [idx[w::16] for w in range(16)], hashseed)
    k = (n + 4) // 5
    b = _run(engine, seed, tier, [idx[j * k:(j + 1) * k] for j in range(5)], hashseed)
    c = _run(engine, seed, tier, [idx[w::7] for w in range(7)], str(int(hashseed) + 1))
    bad_ab = [i for i in idx if a.get(i) != b.get(i)]
    # under another hash seed the hash-order-stable digest must agree (identical to the full digest except for C13,
    # where set iteration order inside Ruler.__compile__ moves a pre-emption between two of its lines)
    bad_ac = [i for i in idx if (a.get(i) or [0, 0])[1] != (c.get(i) or [1, 1])[1]]
    print(json.dumps({"property": engine.prop, "runs": n, "seed": seed, "tier": tier,
                      "mismatch_other_partition": bad_ab[:10], "mismatch_other_hashseed": bad_ac[:10],
                      "n_mismatch_other_partition": len(bad_ab), "n_mismatch_other_hashseed": len(bad_ac),
                      "wall_s": round(time.time() - t0, 1)}))
    if bad_ab or bad_ac:
        print("HARNESS-ERROR: nondeterminism detected")
        return core.EXIT_HARNESS
    print(f"[{engine.prop}] determinism self-test: {n} runs x 3 executions (16/5/7 fresh processes, "
          f"PYTHONHASHSEED {hashseed},{hashseed},{int(hashseed) + 1}) - all digests equal")
    return core.EXIT_OK
