"""C12 - a parse depends only on configuration, source and env: no hidden shared state.

Engine `hist-instances` (DESIGN.md section 7): seeded histories of API calls on 1-3 live instances and
shared envs/option dicts/preset dicts; the probes' expected results are computed BEFORE the history on
freshly constructed instances that receive only the probe instance's configuration ops.
"""

from __future__ import annotations

import collections
import copy
import random

from ..core import Engine, RunResult
from .. import docgen, shared_state

CONFIG_KINDS = {"construct", "enable", "disable", "opt_item", "opt_attr", "set", "configure", "render_rule", "use",
                "bad_config", "ruler", "set_from", "construct_from", "hook", "highlight", "enable_only", "at_alt",
                "link_policy"}
# ops whose effect on instance j depends on the configuration of ANOTHER instance at that moment; the expectation
# world then replays the configuration ops of every instance (never the parses)
CROSS_CONFIG_KINDS = {"set_from", "construct_from", "hook"}
STATEFUL_DOCS = [
    "[x]\n\n[x]: /first 'T'\n", "[x]: /second\n\n[x] [y]\n\n[y]: /why\n", "`` a ` b ``` c `` d ```\n", "``` `` ` x\n",
    "> " * 30 + "deep\n", "- " * 25 + "deep\n", "*" * 40 + "a" + "*" * 37 + "\n", "[" * 30 + "a" + "]" * 30 + "(/u)\n",
    "**a *b __c ~~d~~ e__ f* g**\n", "[foo]: /def-in-doc\n\n[foo] ![foo]\n", "![a [foo] b][foo]\n\n[foo]: /img\n",
    "\"quotes\" -- ... (c)\n", "a\\\nb  \nc\n", "<div>\n\n*x*\n\n</div>\n", "| a | b |\n|---|:-:|\n| `c\\|d` | e |\n",
    "~~s~~ <http://x.y> &amp; &#35;\n", "1. a\n\n   b\n2. c\n\n- d\n- e\n",
    "```py\nRAISE\n```\n", "```py a=1\nfine\n```\n\n~~~\nplain\n~~~\n", "`RAISE` x\n", "[a](/l1) ![b](/l2 't') <http://l3.x/>\n",
    "x @! y\n", "```\nok\n```\n\n```js\nRAISE\n```\n\n```\nafter\n```\n",
    "\u043f\u0440\u0438*\u0441\u0442\u0440*\u0435\u043c \u00e9*\u00e9*\u00e9 \u65e5\u672c**\u8a9e**\u65e5\u672c\n",
    "\u043f\u0440\u0438_\u0441\u0442\u0440_\u0435\u043c \u00e9_\u00e9_\u00e9 \u65e5\u672c__\u8a9e__\u65e5\u672c\n",
    "\u043f\u0440\u0438~~\u0441\u0442\u0440~~\u0435\u043c \u00e9~~\u00e9~~\u00e9\n",
    "para\n***\npara\n# h\npara\n```\ncode\n```\npara\n> q\npara\n- l\npara\n    not code\n",
    "> q\n***\n> r\n# h\n> s\n- l\n\n- a\n***\n- b\n  # h\n\n[r]: /u\n'title\n# h'\n",
    "> quoted\n> - item\n>   @@!\n> more\n", "- a\n- b\n  @@!\n- c\n", "1. x\n\n   > y\n   @@!\n",
]
# destinations on which the link policies below disagree with the default hooks and with each other
LINK_LINES = ["[a](javascript:alert(1)) [b](/Same) ![i](/Same)", "[c](vbscript:foo) <http://Same.x/> [b](/Same 't')",
              "[d](/Same) [e](/Other) [f](JAVASCRIPT:x)"]
OPT_VALUES = {"html": [True, False], "typographer": [True, False], "breaks": [True, False], "xhtmlOut": [True, False],
              "langPrefix": ["language-", "l-"], "quotes": ["“”‘’", "«»‹›"], "maxNesting": [2, 5, 20, 100],
              "inline_definitions": [True, False], "store_labels": [True, False]}
ATTR_OPTS = ["html", "typographer", "breaks", "xhtmlOut", "langPrefix", "quotes", "maxNesting"]
RULE_POOL = docgen.CORE_OPTIONAL + docgen.BLOCK_OPTIONAL + docgen.INLINE_OPTIONAL
RENDER_KEYS = ["text", "code_inline", "hr", "softbreak", "fence", "verif_new_type"]


# --------------------------------------------------------------------------- deterministic user extensions
def _marker_render_rule(marker):
    def rule(self_, tokens, idx, options, env):
        from markdown_it.common.utils import escapeHtml
        if "RAISE" in tokens[idx].content:
            raise ValueError(f"render rule {marker} refuses this token")     # deterministic function of its input
        # like footnote-style plugins, the rule reads what parsing left in env (the number of definitions seen)
        nrefs = len(env.get("references", ())) if env is not None else -1
        return f"<{marker} refs={nrefs}>" + escapeHtml(tokens[idx].content)
    return rule


def _tagged_renderer(tag):
    """A renderer class with per-renderer state (a user subclass of the stock renderer, built through renderer_cls)."""
    from markdown_it.renderer import RendererHTML

    global _TaggedRenderer
    if _TaggedRenderer is None:
        class _Tagged(RendererHTML):
            def __init__(self, parser=None, tag="?"):
                super().__init__(parser)
                self.tag = tag

            def hr(self, tokens, idx, options, env):
                return f"<hr data-r={self.tag}>\n"

            def renderToken(self, tokens, idx, options, env):
                out = super().renderToken(tokens, idx, options, env)
                if tokens[idx].type == "heading_open":
                    out = out.replace(">", f" data-r={self.tag}>", 1)
                return out
        _TaggedRenderer = _Tagged
    import functools
    return functools.partial(_TaggedRenderer, tag=tag)


_TaggedRenderer = None


def _highlighter(mode):
    def hl(content, lang, attrs):
        if "RAISE" in content:
            raise ValueError("highlighter refuses this block")               # deterministic function of its input
        if mode == 0:
            return ""
        return f"<pre class=hl{mode}>{lang}|{attrs}|{len(content)}</pre>"
    return hl


def _plugin(md, tag, where):
    if where == "inline":
        def rule(state, silent):
            if state.src[state.pos] != "@":
                return False
            if state.src[state.pos:state.pos + 2] == "@!":
                raise ValueError(f"plugin {tag} refuses '@!'")                 # deterministic function of its input
            if not silent:
                t = state.push("text", "", 0)
                t.content = f"<{tag}>"
            state.pos += 1
            return True
        md.inline.ruler.before("text", f"verif_{tag}", rule)
    elif where == "core":
        def crule(state):
            from markdown_it.token import Token
            t = Token("html_block", "", 0)
            t.content = f"<!--{tag}-->\n"
            state.tokens.append(t)
        md.core.ruler.push(f"verif_{tag}", crule)
    else:
        def brule(state, startLine, endLine, silent):
            pos = state.bMarks[startLine] + state.tShift[startLine]
            if state.src[pos:pos + 2] != "@@" or state.is_code_block(startLine):
                return False
            if state.src[pos:pos + 3] == "@@!":
                raise ValueError(f"plugin {tag} refuses '@@!'")                # deterministic function of its input
            if silent:
                return True
            t = state.push("html_block", "", 0)
            t.content = f"<!--{tag}-->\n"
            t.map = [startLine, startLine + 1]
            state.line = startLine + 1
            return True
        md.block.ruler.before("paragraph", f"verif_{tag}", brule, {"alt": ["paragraph", "reference", "blockquote"]})


# --------------------------------------------------------------------------- generation
def _gen_preset_ref(rng, n_user):
    r = rng.random()
    if r < 0.55 or n_user == 0:
        return rng.choice(["commonmark", "js-default", "zero", "gfm-like", "default"])
    if r < 0.75:
        return "module:" + rng.choice(["commonmark", "default", "zero", "gfm_like"])
    return f"user:{rng.randrange(n_user)}"


def _gen_options(rng, p=0.3):
    o = {"linkify": False}
    for k, vals in OPT_VALUES.items():
        if rng.random() < p:
            o[k] = rng.choice(vals)
    return o


def _gen_doc(rng):
    r = rng.random()
    if r < 0.3:
        return rng.choice(STATEFUL_DOCS)
    if r < 0.4:
        return rng.choice(STATEFUL_DOCS) + "\n" + docgen.document(rng, 2)
    return docgen.document(rng, 3)


def gen(rng: random.Random, tier: str) -> dict:
    from markdown_it import presets as P
    n_inst = rng.choice([1, 2, 2, 3])
    n_user = rng.choice([0, 1, 1, 2])
    n_env = rng.choice([0, 1, 2])
    n_uopt = rng.choice([0, 1])
    user_presets = []
    for _ in range(n_user):
        base = copy.deepcopy(rng.choice([P.commonmark.make(), P.zero.make(), P.default.make(), P.gfm_like.make()]))
        base["options"]["linkify"] = False
        if rng.random() < 0.5:
            base["options"][rng.choice(["breaks", "typographer", "xhtmlOut"])] = True
        user_presets.append(base)
    user_options = []
    for _ in range(n_uopt):
        o = copy.deepcopy(P.commonmark.make()["options"])
        o.update(_gen_options(rng, 0.4))
        user_options.append(o)
    ops = []
    tagged = rng.random() < 0.2
    for j in range(n_inst):
        ops.append(["construct", j, _gen_preset_ref(rng, n_user), _gen_options(rng) if rng.random() < 0.6 else None,
                    f"r{j}x{rng.randrange(1000)}" if tagged else None])
    pid = 0
    for _ in range(rng.randint(2, 16)):
        j = rng.randrange(n_inst)
        r = rng.random()
        if r < 0.05:
            # temporary rules around one parse - the documented use of reset_rules - or an enableOnly on one ruler
            if rng.random() < 0.6:
                body = [[rng.choice(["enable", "disable"]), rng.sample(RULE_POOL, rng.randint(1, 3))]
                        for _ in range(rng.randint(0, 2))]
                ops.append(["reset_block", j, body, _gen_doc(rng) if rng.random() < 0.8 else None])
            else:
                which = rng.choice(["inline2", "core", "inline"])
                keep = {"inline2": ["balance_pairs", "strikethrough", "emphasis", "fragments_join"],
                        "core": ["replacements", "smartquotes", "linkify"],
                        "inline": ["newline", "escape", "backticks", "strikethrough", "emphasis", "link", "image", "autolink",
                                   "html_inline", "entity"]}[which]
                ops.append(["enable_only", j, which, rng.sample(keep, rng.choice([0, 0, 1, 2, len(keep)]))])
        elif r < 0.45:
            m = rng.choice(["render", "render", "parse", "renderInline", "parseInline"])
            d = docgen.inline_source(rng) if "Inline" in m else _gen_doc(rng)
            prev = [op for op in ops if op[0] == "call"]
            if prev and rng.random() < 0.2:
                m, d = prev[-1][2], prev[-1][3]
                if rng.random() < 0.5:
                    d = d + "\n\n[foo]: /hist-foo\n[bar]: /hist-bar\n[A B]: /hist-ab\n"
            em = rng.choice(["omit", "fresh", "fresh"] + ([["shared", rng.randrange(n_env)]] * 2 if n_env else []))
            ops.append(["call", j, m, d, em])
            if rng.random() < 0.12:
                ops.append(["mutate", j, rng.randrange(4), rng.randrange(1, 1000)])
        elif r < 0.53:
            ops.append([rng.choice(["enable", "disable"]), j, rng.sample(RULE_POOL, rng.randint(1, 3))])
        elif r < 0.59:
            k = rng.choice(list(OPT_VALUES))
            ops.append(["opt_item", j, k, rng.choice(OPT_VALUES[k])])
        elif r < 0.64:
            k = rng.choice(ATTR_OPTS)
            ops.append(["opt_attr", j, k, rng.choice(OPT_VALUES[k])])
        elif r < 0.68:
            if n_uopt and rng.random() < 0.6:
                ops.append(["set", j, f"user:{rng.randrange(n_uopt)}"])
            else:
                o = copy.deepcopy(P.commonmark.make()["options"])
                o.update(_gen_options(rng, 0.4))
                ops.append(["set", j, o])
        elif r < 0.73:
            ops.append(["configure", j, _gen_preset_ref(rng, n_user), _gen_options(rng) if rng.random() < 0.5 else None])
        elif r < 0.78:
            pid += 1
            ops.append(["render_rule", j, rng.choice(RENDER_KEYS), f"m{pid}"])
        elif r < 0.825:
            pid += 1
            ops.append(["use", j, f"p{pid}", rng.choice(["inline", "core", "block"])])
        elif r < 0.85:
            ops.append(["construct", j, _gen_preset_ref(rng, n_user), _gen_options(rng) if rng.random() < 0.6 else None])
        elif r < 0.87:
            ops.append(["ruler", j, rng.choice(["block", "inline"]), rng.choice(["enable", "disable"]),
                        [rng.choice(docgen.BLOCK_OPTIONAL)]])
        elif r < 0.895 and n_inst > 1:
            # hand one instance's live options object to another instance (set / constructor): they must not alias
            i = rng.choice([x for x in range(n_inst) if x != j])
            if rng.random() < 0.6:
                ops.append(["set_from", j, i])
            else:
                ops.append(["construct_from", j, _gen_preset_ref(rng, n_user), i])
        elif r < 0.915:
            # a user hook on instance j that uses instance i (possibly j itself) while j is parsing
            i = rng.randrange(n_inst)
            if rng.random() < 0.45:
                # a link policy of this instance's own (the documented way to allow/forbid/rewrite destinations): the
                # verdict on one raw destination then differs between instances of one process
                ops.append(["link_policy", j, rng.choice(["allow", "deny_same", "deny", "lower", "tag"])])
            else:
                ops.append(["hook", j, rng.choice(["normalizeLink", "validateLink", "normalizeLinkText"]), i,
                            rng.choice(["[q](/hooked 'h') `c`", "*e* [z][foo] <http://in.hook/>", "x"])])
        elif r < 0.935:
            ops.append(["highlight", j, rng.randrange(3)])
        elif r < 0.96:
            # a stock block rule re-registered with ITS OWN function but another terminator-chain membership
            ops.append(["at_alt", j, rng.choice(["hr", "fence", "heading", "blockquote", "list", "code"]),
                        rng.sample(["paragraph", "reference", "blockquote", "list"], rng.randint(0, 3))])
        elif r < 0.985:
            # the caller scribbles over what an earlier call returned (tokens, their attrs/meta/map/children, the env):
            # results belong to the caller, so this must not reach any later call
            ops.append(["mutate", j, rng.randrange(4), rng.randrange(1, 1000)])
        else:
            ops.append(["bad", j, rng.choice(["src_int", "src_none", "env_list", "env_str", "preset", "rule", "empty_cfg",
                                              "inline_src_bytes"])])
    # where user callbacks that can refuse their input are installed, give them something to refuse (and to accept)
    armed = False
    for op in ops:
        if op[0] in ("highlight", "render_rule", "use"):
            armed = True
        elif armed and op[0] == "call" and "Inline" not in op[2] and rng.random() < 0.35:
            op[3] = op[3] + rng.choice(["\n```py\nRAISE\n```\n", "\n```py a=1\nfine\n```\n", "\nx @! y `RAISE`\n", "\n`RAISE`\n",
                                        "\n> q\n> - i\n>   @@!\n> z\n", "\n- a\n- b\n  @@!\n"])
    if any(op[0] == "link_policy" for op in ops):
        for op in ops:
            if op[0] == "call" and rng.random() < 0.6:
                op[3] = op[3] + ("\n\n" if "Inline" not in op[2] else " ") + rng.choice(LINK_LINES) + ("\n" if "Inline" not in op[2] else "")
    probes = []
    seen_docs = [op for op in ops if op[0] == "call"]
    for _ in range(rng.randint(1, 4)):
        m = rng.choice(["render", "render", "parse", "renderInline", "parseInline"])
        d = docgen.inline_source(rng) if "Inline" in m else (_gen_doc(rng) + rng.choice(["", "", "x @ y\n\n@@\n", "```py\nfine\n```\n"]))
        j = rng.randrange(n_inst)
        if seen_docs and rng.random() < 0.4:
            # the same text again (memo-style state is keyed by text/position), with its definitions dropped, kept or
            # changed: what resolved in the history must not resolve (or not the same way) in the probe
            src_op = rng.choice(seen_docs)
            m = src_op[2] if rng.random() < 0.7 else m
            d = src_op[3]
            j = src_op[1] if rng.random() < 0.7 else j
            k = rng.random()
            if k < 0.35:
                d = "\n".join(ln for ln in d.split("\n") if not ln.lstrip(" >").startswith("[") or "]:" not in ln)
            elif k < 0.55:
                d = d + "\n\n[foo]: /other-foo\n[x]: /other-x\n[ref]: /other-ref 'T'\n"
        if any(op[0] == "link_policy" for op in ops) and rng.random() < 0.6:
            d = d + ("\n\n" if "Inline" not in m else " ") + rng.choice(LINK_LINES) + ("\n" if "Inline" not in m else "")
        probes.append([j, m, d, rng.choice(["omit", "fresh"])])
    for op in [o for o in ops if o[0] == "at_alt"][:1]:
        # the customised instance and a bystander on the same terminator-sensitive text
        tdoc = STATEFUL_DOCS[-5] if rng.random() < 0.5 else STATEFUL_DOCS[-4]
        probes.append([op[1], "render", tdoc, "fresh"])
        if n_inst > 1:
            probes.append([(op[1] + 1) % n_inst, "render", tdoc, "fresh"])
    return {"user_presets": user_presets, "user_options": user_options, "n_env": n_env, "ops": ops, "probes": probes,
            "env_type": rng.choice(["dict", "dict", "userdict"])}


# --------------------------------------------------------------------------- execution
class _World:
    """Live instances + the caller-owned objects shared between them."""

    def __init__(self, rec, pristine: bool):
        self.rec = rec
        # a pristine world gets its own deep copies of the user-owned dicts
        self.user_presets = copy.deepcopy(rec["user_presets"])
        self.user_options = copy.deepcopy(rec["user_options"])
        self.inst: dict[int, object] = {}
        self.last: dict[int, tuple] = {}      # instance -> (value, env) of its most recent successful call
        self.lasts: dict[int, list] = {}      # instance -> the last few (value, env) it returned
        self.hook_depth = 0
        self.tags: dict[int, str] = {}        # instance -> tag of its stateful renderer
        mk = collections.UserDict if rec.get("env_type") == "userdict" else dict
        self.envs = [mk() for _ in range(rec["n_env"])]

    def preset(self, ref):
        from markdown_it import presets as P
        if ref.startswith("user:"):
            return self.user_presets[int(ref[5:])]
        if ref.startswith("module:"):
            # the module's own dict, freshly made (what a user would pass) - linkify stays off via options_update
            return getattr(P, ref[7:]).make()
        return ref

    def config_op(self, op):
        """Apply one configuration op; returns the exception (or None)."""
        from markdown_it import MarkdownIt
        kind, j = op[0], op[1]
        try:
            if kind == "construct":
                upd = dict(op[3]) if op[3] is not None else None
                p = self.preset(op[2])
                if upd is None and _needs_linkify_off(op[2]):
                    upd = {"linkify": False}      # otherwise really NO options_update: the preset's own options
                if len(op) > 4 and op[4]:
                    self.inst[j] = MarkdownIt(p, upd, renderer_cls=_tagged_renderer(op[4]))
                    self.tags[j] = op[4]
                else:
                    self.inst[j] = MarkdownIt(p, upd)
                    self.tags.pop(j, None)
                return None
            if kind == "construct_from":
                self.inst[j] = MarkdownIt(self.preset(op[2]), self.inst[op[3]].options)
                self.tags.pop(j, None)
                return None
            md = self.inst[j]
            if kind == "hook":
                world, other, doc = self, op[3], op[4]
                prev = getattr(md, op[2])

                def hook(url, _prev=prev):
                    if world.hook_depth == 0:                # the nested document has links too: no recursion
                        world.hook_depth += 1
                        try:
                            world.inst[other].renderInline(doc)   # whatever instance currently lives under that index
                        finally:
                            world.hook_depth -= 1
                    return _prev(url)
                setattr(md, op[2], hook)
            elif kind == "link_policy":
                v, tag = op[2], f"i{j}"
                if v in ("allow", "deny", "deny_same"):
                    prev = md.validateLink
                    md.validateLink = {"allow": lambda url: True, "deny": lambda url: False,
                                       "deny_same": lambda url, _p=prev: "same" not in url.lower() and _p(url)}[v]
                else:
                    prev = md.normalizeLink
                    md.normalizeLink = {"lower": lambda url, _p=prev: _p(url).lower(),
                                        "tag": lambda url, _p=prev, _t=tag: _p(url) + "?via=" + _t}[v]
            elif kind == "highlight":
                md.options["highlight"] = _highlighter(op[2])
            elif kind == "at_alt":
                r = md.block.ruler
                names = r.get_all_rules()
                act = r.get_active_rules()
                r.enableOnly(names)
                fn = r.getRules("")[names.index(op[2])]
                r.enableOnly(act)
                r.at(op[2], fn, {"alt": list(op[3])})
            elif kind == "enable_only":
                r = md.inline.ruler2 if op[2] == "inline2" else md[op[2]].ruler
                # the rules that guarantee progress / form the pipeline stay on (C01's supported configurations)
                must = {"core": ["normalize", "block", "inline", "text_join"], "inline": ["text"], "inline2": []}[op[2]]
                r.enableOnly([x for x in must if x in r.get_all_rules()] + list(op[3]), True)
            elif kind == "set_from":
                md.set(self.inst[op[2]].options)
            elif kind in ("enable", "disable"):
                getattr(md, kind)(list(op[2]))
            elif kind == "opt_item":
                md.options[op[2]] = op[3]
            elif kind == "opt_attr":
                setattr(md.options, op[2], op[3])
            elif kind == "set":
                o = self.user_options[int(op[2][5:])] if isinstance(op[2], str) else dict(op[2])
                md.set(o)
            elif kind == "configure":
                upd = dict(op[3]) if op[3] is not None else ({"linkify": False} if _needs_linkify_off(op[2]) else None)
                md.configure(self.preset(op[2]), options_update=upd)
            elif kind == "render_rule":
                md.add_render_rule(op[2], _marker_render_rule(op[3]))
            elif kind == "use":
                md.use(_plugin, op[2], op[3])
            elif kind == "ruler":
                getattr(md[op[2]].ruler, op[3])(list(op[4]), True)
        except Exception as e:  # noqa: BLE001
            return e
        return None

    def bad(self, op):
        """Documented failing calls; returns the exception type name (or 'no-exception')."""
        from markdown_it import MarkdownIt
        md = self.inst[op[1]]
        k = op[2]
        try:
            if k == "src_int":
                md.render(123)
            elif k == "src_none":
                md.parse(None)
            elif k == "inline_src_bytes":
                md.parseInline(b"x")
            elif k == "env_list":
                md.render("x", [])
            elif k == "env_str":
                md.parseInline("x", "env")
            elif k == "preset":
                MarkdownIt("no-such-preset")
            elif k == "rule":
                md.enable("no-such-rule")
            elif k == "empty_cfg":
                md.configure({})
        except (TypeError, KeyError, ValueError) as e:
            return type(e).__name__
        return "no-exception"


def _needs_linkify_off(ref) -> bool:
    """linkify-it-py is not installed: only the gfm-like preset switches linkify on (user presets have it off)."""
    return isinstance(ref, str) and ref in ("gfm-like", "module:gfm_like")


def _scribble(value, env, mode: int, salt: int = 0) -> int:
    """The caller's own mutations of what a call returned. Returns the number of objects touched."""
    n = 0
    if isinstance(value, list):
        stack = list(value)
        while stack:
            t = stack.pop()
            n += 1
            if mode in (0, 3):
                t.attrs["data-verif"] = f"scribble{salt}"
                t.meta["verif"] = ["scribble", salt]
                t.content = t.content + "SCRIBBLE"
                t.info = "scribble"
                t.markup = "!!"
            if mode in (1, 3) and t.map is not None:
                t.map[:] = [97 + salt, 98 + salt, 99]
            if t.children:
                stack.extend(t.children)
                if mode in (2, 3):
                    t.children.reverse()
                    del t.children[1:]
        if mode in (2, 3):
            value.clear()
    if env is not None:
        try:
            refs = env.get("references")
            if isinstance(refs, dict):
                for v in refs.values():
                    if isinstance(v, dict):
                        v["href"] = "/scribble"
                        v["title"] = "scribble"
                        if isinstance(v.get("map"), list):
                            v["map"][:] = [97, 98]
                        n += 1
                if mode in (2, 3):
                    refs["SCRIBBLE"] = {"href": "/scribbled-in", "title": "", "map": [0, 1]}
            dups = env.get("duplicate_refs")
            if isinstance(dups, list) and mode in (1, 3):
                dups.clear()
        except Exception:  # noqa: BLE001 - a caller-owned env of unexpected shape is not the harness's business
            pass
    return n


def _snap(md):
    return (md.get_active_rules(), dict(md.options),
            {k: getattr(v, "__func__", v) for k, v in md.renderer.rules.items()})


def _env_plain(env):
    return None if env is None else {str(k): v for k, v in dict(env).items()}


def _call(md, method, doc, env, keep: list | None = None):
    try:
        v = getattr(md, method)(doc) if env is None else getattr(md, method)(doc, env)
    except Exception as e:  # noqa: BLE001
        return ["exc", type(e).__name__, str(e)[:200]]
    if keep is not None:
        keep.append(v)
    if method in ("parse", "parseInline"):
        # a deep copy: as_dict() hands out the token's own map/meta/attrs objects, and a snapshot that aliases them would
        # change together with whatever the library (wrongly) shares between calls
        v = copy.deepcopy([t.as_dict() for t in v])
    return ["ok", v]


def _foreign_tag(out, tag) -> str | None:
    """The harness's own knowledge of its own renderer subclass: whatever `data-r=` an instance emits is ITS tag."""
    if out[0] != "ok" or not isinstance(out[1], str):
        return None
    i = 0
    while True:
        i = out[1].find("data-r=", i)
        if i < 0:
            return None
        j = i + 7
        k = j
        while k < len(out[1]) and out[1][k] not in ">\n ":
            k += 1
        if out[1][j:k] != tag:
            return out[1][j:k]
        i = k


def _presets_observed():
    """The shared presets as a user can observe them: what a fresh instance of each name looks like."""
    from markdown_it import MarkdownIt
    out = {}
    for name in ("commonmark", "js-default", "zero", "gfm-like", "default"):
        md = MarkdownIt(name)
        out[name] = (md.get_active_rules(), dict(md.options))
    return out


def _presets_internal():
    import markdown_it.main as M
    from markdown_it import presets as P
    d = {"made": {n: getattr(P, n).make() for n in ("commonmark", "default", "zero", "gfm_like", "js_default")}}
    if hasattr(M, "_PRESETS"):
        d["_PRESETS"] = copy.deepcopy(M._PRESETS)
    return d


def expected_for(rec, order):
    """Probe expectations on fresh instances that receive only the probe instance's configuration ops."""
    exp = {}
    for pi in order:
        j, method, doc, envmode = rec["probes"][pi]
        w = _World(rec, pristine=True)
        cross = any(op[0] in CROSS_CONFIG_KINDS for op in rec["ops"])
        for op in rec["ops"]:
            if (cross or op[1] == j) and op[0] in CONFIG_KINDS:
                w.config_op(op)
        env = {}
        out = _call(w.inst[j], method, doc, env)
        exp[pi] = [out, _env_plain(env)]
    return exp


def execute(rec: dict, res: RunResult) -> None:
    n_probes = len(rec["probes"])
    # Process-global library state (module/class-level containers, rebinding globals, functools caches) is put back to
    # what it was after the fixed warm-up before each phase: otherwise whatever an EARLIER run of this worker - or the
    # expectation phase of this very run - left in a process-wide memo would "prime" it and hide exactly the pollution
    # this property is about.  (Shallow: objects nested inside the shared presets are not touched, see PRESET_MUTATED.)
    shared_state.reset_module_state()
    pre_obs = _presets_observed()
    pre_int = _presets_internal()
    # expectations BEFORE the history, twice in opposite orders (they must not influence each other either)
    e1 = expected_for(rec, list(range(n_probes)))
    shared_state.reset_module_state()
    e2 = expected_for(rec, list(reversed(range(n_probes))))
    shared_state.reset_module_state()
    if e1 != e2:
        pi = next(i for i in range(n_probes) if e1[i] != e2[i])
        res.fail("CROSS_INSTANCE", f"building fresh, identically configured instances in a different order changes "
                                   f"probe {pi} {rec['probes'][pi][:2]}: {str(e1[pi])[:300]} vs {str(e2[pi])[:300]}",
                 "expectation-order")
        return
    if _presets_observed() != pre_obs or _presets_internal() != pre_int:
        res.fail("PRESET_MUTATED", "constructing/configuring instances changed the shared presets", "expectation")
        return

    # ---- the history
    w = _World(rec, pristine=False)
    user_snap = copy.deepcopy((w.user_presets, w.user_options))
    state_bearing = 0
    for k, op in enumerate(rec["ops"]):
        kind, j = op[0], op[1]
        before = {i: _snap(m) for i, m in w.inst.items()}
        if kind in CONFIG_KINDS:
            e = w.config_op(op)
            res.events.append([k, kind, type(e).__name__ if e else "ok"])
            if kind == "opt_item":
                res.count("option_route_item")
            elif kind == "opt_attr":
                res.count("option_route_attr")
            elif kind == "construct":
                res.count("option_route_ctor")
                if op[3] is None and not _needs_linkify_off(op[2]):
                    res.count("constructed_without_options_update")
                if isinstance(op[2], str) and op[2].startswith("user:"):
                    res.count("shared_user_preset")
            elif kind == "render_rule":
                res.count("render_rule_added")
            elif kind == "hook" and e is None:
                res.count("link_hook_using_an_instance_installed")
            elif kind == "link_policy" and e is None:
                res.count("instance_link_policy_installed")
            elif kind == "highlight":
                res.count("raising_highlighter_installed")
            elif kind in CROSS_CONFIG_KINDS and e is None:
                res.count("options_object_handed_to_other_instance")
            touched = {j}
        elif kind == "reset_block":
            md = w.inst[j]
            out = None
            with md.reset_rules():
                for bk, names in op[2]:
                    getattr(md, bk)(list(names), True)
                if op[3] is not None:
                    out = _call(md, "render", op[3], {})
            res.events.append([k, "reset_block", j, out])
            res.count("reset_rules_block_around_a_parse")
            state_bearing += 1
            touched = set()
        elif kind == "mutate":
            n = 0
            for last in w.lasts.get(j, []):          # everything this instance returned recently belongs to the caller
                n += _scribble(last[0], last[1], op[2], op[3] if len(op) > 3 else 0)
            w.lasts[j] = []
            res.events.append([k, "mutate", j, op[2], n])
            if n:
                res.count("caller_mutated_returned_objects")
            touched = set()
        elif kind == "bad":
            r = w.bad(op)
            res.events.append([k, "bad", op[2], r])
            res.count("failed_documented_call")
            if r == "no-exception":
                res.fail("MISSING_EXCEPTION", f"op {k}: documented failing call {op[2]} did not raise", "bad:" + op[2])
                return
            touched = set()
        else:
            _, _, method, doc, em = op
            env = None if em == "omit" else ({} if em == "fresh" else w.envs[em[1]])
            keep: list = []
            out = _call(w.inst[j], method, doc, env, keep)
            if keep:
                w.last[j] = (keep[0], env)
                w.lasts.setdefault(j, []).append((keep[0], env))
                del w.lasts[j][:-4]
            res.events.append([k, "call", j, method, out])
            if j in w.tags:
                res.count("stateful_renderer_class_used")
                ft = _foreign_tag(out, w.tags[j])
                if ft is not None:
                    res.fail("CROSS_INSTANCE", f"op {k}: instance {j} (renderer tag {w.tags[j]}) rendered with the state of "
                                               f"another renderer (tag {ft}): {str(out)[:300]}", "renderer-state")
                    return
            if out[0] == "exc" and out[1] == "ValueError" and "refuses" in out[2]:
                res.count("user_callback_raised_in_history")
            state_bearing += 1
            if "]:" in doc:
                res.count("definitions_parsed_in_history")
            touched = set()
        res.steps += 1
        # invariants after every op
        for i, m in w.inst.items():
            if i in touched or i not in before:
                continue
            if _snap(m) != before[i]:
                res.fail("CROSS_INSTANCE", f"op {k} {str(op)[:200]} changed instance {i} "
                                           f"(rules/options/render rules), which it does not address", kind)
                return
            if len(w.inst) > 1 and kind in CONFIG_KINDS:
                res.count("other_instance_reconfigured")
        if (w.user_presets, w.user_options) != user_snap:
            res.fail("USER_DICT_MUTATED", f"op {k} {str(op)[:200]} modified a caller-owned preset/options dict", kind)
            return
        if k % 4 == 3 or k == len(rec["ops"]) - 1:
            if _presets_internal() != pre_int or _presets_observed() != pre_obs:
                res.fail("PRESET_MUTATED", f"after op {k} {str(op)[:200]} the shared presets differ from before the "
                                           f"history", kind)
                return

    # ---- probes
    any_output = False
    for pi, (j, method, doc, envmode) in enumerate(rec["probes"]):
        env = None if envmode == "omit" else {}
        out = _call(w.inst[j], method, doc, env)
        res.events.append(["probe", pi, out])
        exp_out, exp_env = e1[pi]
        if out[0] == "ok" and out[1]:
            any_output = True
        if "[" in doc and "]:" not in doc:
            res.count("ref_use_in_probe_without_env")
        if out != exp_out:
            res.fail("PROBE_DIFF", f"probe {pi}: instance {j}.{method}({doc!r}, env {envmode}) after the history gives "
                                   f"{str(out)[:400]} but a fresh identically configured instance gives {str(exp_out)[:400]}",
                     "probe")
            return
        if env is not None and _env_plain(env) != exp_env:
            res.fail("PROBE_DIFF", f"probe {pi}: env after the call is {str(_env_plain(env))[:300]}, fresh instance "
                                   f"leaves {str(exp_env)[:300]}", "probe-env")
            return
    res.nontrivial = state_bearing > 0 and any_output


class C12(Engine):
    prop = "C12"
    level = "exploration"
    fresh_candidates = True
    rule = ("seeded histories of 2-16 API calls (construct by preset name / module dict / shared user dict, parse/render/"
            "parseInline/renderInline with env omitted, fresh or shared, enable/disable, options by 3 routes, set, "
            "configure, add_render_rule, use(plugin), one instance's options object handed to another, the caller scribbling "
            "over returned tokens/env, documented failing calls) on 1-3 live instances, then 1-4 probes "
            "whose expected values were computed before the history on fresh instances. Non-trivial = at least one "
            "parse/render call in the history and a probe with non-empty output; distinct = distinct event-log digests.")
    assumptions = ["linkify stays off (linkify-it-py is not installed)",
                   "expectations are computed in the same process before the history (twice, in opposite orders); "
                   "pollution carried over from an earlier run of the same worker is caught by the fresh-interpreter "
                   "confirmation protocol, not by the run itself"]
    components = {"real": ["all of markdown_it incl. presets and module-level state", "mdurl"],
                  "harness_supplied": ["marker render rules", "marker plugins", "shared env / option / preset dicts"],
                  "stub": [], "simulated": ["the history of calls on several live instances, incl. documented failing calls"]}
    expected_probes = ["ref_use_in_probe_without_env", "other_instance_reconfigured", "shared_user_preset",
                       "option_route_ctor", "option_route_item", "option_route_attr", "failed_documented_call",
                       "render_rule_added", "definitions_parsed_in_history", "caller_mutated_returned_objects",
                       "options_object_handed_to_other_instance", "link_hook_using_an_instance_installed",
                       "instance_link_policy_installed", "raising_highlighter_installed", "user_callback_raised_in_history", "reset_rules_block_around_a_parse",
                       "stateful_renderer_class_used", "constructed_without_options_update"]

    def budget(self, tier):
        if tier == "quick":
            return {"runs": 40_000, "wall_s": 110, "selftest_samples": 24}
        return {"runs": 1_500_000, "wall_s": 1800, "selftest_samples": 48}

    def warmup(self):
        from markdown_it import MarkdownIt
        MarkdownIt("js-default").enable(["replacements", "smartquotes"]).render(
            "# a\n\n*b* `c` [d](/e) ![f](/g) <h> &amp; \\* \"q\" --\n\n> - x\n\n| a |\n|---|\n| b |\n\n[r]: /u\n")
        _presets_observed()
        _presets_internal()
        shared_state.snapshot_module_state()

    def gen(self, rng, i, tier):
        return gen(rng, tier)

    def execute(self, rec):
        res = RunResult()
        execute(rec, res)
        return res

    def shrink_steps(self, rec):
        ops = rec["ops"]
        n = len(ops)
        used = {p[0] for p in rec["probes"]}
        for size in (n // 2, n // 4, 1):
            if size < 1:
                continue
            for s in range(0, n, size):
                cand = ops[:s] + ops[s + size:]
                # every instance used later must still be constructed first
                if len(cand) < n and _valid(cand, rec["probes"]):
                    yield {**rec, "ops": cand}
        if len(rec["probes"]) > 1:
            for j in range(len(rec["probes"])):
                ps = rec["probes"][:j] + rec["probes"][j + 1:]
                if _valid(ops, ps):
                    yield {**rec, "probes": ps}
        for j, p in enumerate(rec["probes"]):
            for simple in docgen.LADDER + STATEFUL_DOCS:
                if len(simple) < len(p[2]) and "Inline" not in p[1]:
                    yield {**rec, "probes": rec["probes"][:j] + [[p[0], p[1], simple, p[3]]] + rec["probes"][j + 1:]}
        for j, op in enumerate(ops):
            if op[0] == "call":
                for simple in docgen.LADDER + STATEFUL_DOCS:
                    if len(simple) < len(op[3]) and "Inline" not in op[2]:
                        yield {**rec, "ops": ops[:j] + [[op[0], op[1], op[2], simple, op[4]]] + ops[j + 1:]}
            if op[0] == "construct" and (op[2] != "commonmark" or op[3] is not None):
                yield {**rec, "ops": ops[:j] + [["construct", op[1], "commonmark", None]] + ops[j + 1:]}


def _valid(ops, probes):
    built = set()
    for op in ops:
        if op[0] == "construct":
            built.add(op[1])
        elif op[0] == "construct_from":
            if op[3] not in built:
                return False
            built.add(op[1])
        elif op[1] not in built or (op[0] == "set_from" and op[2] not in built) or (op[0] == "hook" and op[3] not in built):
            return False
    return all(p[0] in built for p in probes)


ENGINE = C12()
