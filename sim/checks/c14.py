"""C14 - an exception escaping from user code leaves the instance intact.

Engine `crash-callbacks` (DESIGN.md section 5).  Every user-code entry point of one instance is occupied
by a counting pass-through callback; a crash point is "the i-th invocation of site s raises E".  A twin
instance with the same callbacks never sees a fault and supplies the expected outcomes.
"""

from __future__ import annotations

import collections
import random
import sys

from ..core import Engine, RunResult
from .. import docgen
from .c11 import RULERS, BLOCK_ALT, _ruler, builtin_alts


class _Private(BaseException):
    """A BaseException subclass private to the harness."""


EXC = {
    "ValueError": ValueError, "KeyError": KeyError, "IndexError": IndexError, "TypeError": TypeError,
    "AttributeError": AttributeError, "AssertionError": AssertionError, "RecursionError": RecursionError,
    "StopIteration": StopIteration, "GeneratorExit": GeneratorExit, "KeyboardInterrupt": KeyboardInterrupt,
    "SystemExit": SystemExit, "Private": _Private,
}
EXC_NAMES = list(EXC)
# the types a sloppy `except` clause inside a library is most likely to name get more of the crash points
EXC_WEIGHTED = (EXC_NAMES + ["KeyError", "KeyError", "IndexError", "IndexError", "StopIteration", "ValueError", "TypeError",
                             "AttributeError"])


def make_exc(name: str, msg: str, salt: int = 0) -> BaseException:
    """The injected object.  User code raises exceptions of every shape: with a message (2 of 4), with no arguments at
    all (bare `raise E`), or with several non-string arguments - chosen by the invocation index, so no PRNG is involved."""
    cls = EXC[name]
    k = salt % 4
    if k == 1:
        return cls()
    if k == 3:
        return cls(salt, ("injected", msg))
    return cls(msg)
METHODS = ["render", "parse", "renderInline", "parseInline"]
EXTRA_RENDER = ["paragraph_open", "em_open", "strong_close", "link_open", "list_item_open", "blockquote_open",
                "heading_open", "hr", "td_open", "s_open", "bullet_list_close"]
BASE_CFG = {"preset": "commonmark", "options": {"linkify": False}, "enable": [], "disable": []}
# rare constructs: state parked on the parser/renderer/a module by a failed call tends to show only here
BATTERY = [
    "| a | b |\n|:--|--:|\n| 1 | `x\\|y` |\n", "3. x\n4. y\n\n7) z\n", "![a ![b](/i) c](/img \"t\") ![](/e)\n", "a  \nb\\\nc\n",
    "<div>\n*x*\n</div>\n\n<!-- c -->\n\n<?php x ?>\n", "> " * 18 + "deep\n", "\"q\" 'a' it's -- ... (c) +-\n",
    "```py info\ncode\n```\n\n~~~\nplain\n~~~\n", "Title\n===\n\n> sub\n> ---\n", "*a **b** c* `d` <http://x.y> &amp; \\* ~~s~~\n",
    "[r] [R][] ![i][r]\n\n[r]: /u 'T'\n", "- a\n\n  b\n- c\n    - d\n1. e\n", "    code\n\ttab\n\npara\n",
]
RULE_POOLS = {"core": ["replacements", "smartquotes", "text_join", "linkify"],
              "block": ["table", "code", "fence", "blockquote", "hr", "list", "reference", "html_block", "heading", "lheading"],
              "inline": ["newline", "escape", "backticks", "strikethrough", "emphasis", "link", "image", "autolink",
                         "html_inline", "entity"],
              "inline2": ["balance_pairs", "strikethrough", "emphasis", "fragments_join"]}


class Plan:
    """Fault plan of one instance: counts invocations per site, raises on the armed one."""

    def __init__(self):
        self.counts: dict[tuple, int] = {}
        self.armed: tuple | None = None      # (site, index, exc_name)
        self.fired: dict | None = None
        self.exc_obj: BaseException | None = None

    def reset(self):
        self.counts = {}
        self.fired = None
        self.exc_obj = None

    def hit(self, site: tuple, ctx_fn=None):
        c = self.counts.get(site, 0) + 1
        self.counts[site] = c
        a = self.armed
        if a is not None and a[0] == site and a[1] == c and self.fired is None:
            self.exc_obj = make_exc(a[2], f"injected at {site} #{c}", c)
            self.fired = {"site": site, "index": c, "exc": a[2], "ctx": ctx_fn() if ctx_fn else {}}
            raise self.exc_obj


def _lib_stack():
    """Names of the library functions on the stack at the crash point (reach measure only)."""
    rp = "markdown_it"
    names = []
    f = sys._getframe(2)
    while f is not None:
        fn = f.f_code.co_filename
        if (rp + "/") in fn.replace("\\", "/"):
            names.append(f.f_code.co_name)
        f = f.f_back
    return names


def _wrap_rule(fn, which, name, plan: Plan):
    site = ("rule", which, name)
    if which == "block":
        def w(state, startLine, endLine, silent):
            plan.hit(site, lambda: {"silent": bool(silent), "level": state.level, "stack": _lib_stack()})
            return fn(state, startLine, endLine, silent)
    elif which == "inline":
        def w(state, silent):
            plan.hit(site, lambda: {"silent": bool(silent), "level": state.level, "stack": _lib_stack()})
            return fn(state, silent)
    else:
        def w(state):
            plan.hit(site, lambda: {"silent": False, "level": 0, "stack": _lib_stack()})
            return fn(state)
    w.rule_name = name
    return w


def _noop_rule(which):
    if which == "block":
        return lambda state, startLine, endLine, silent: False
    if which == "inline":
        return lambda state, silent: False
    return lambda state: None


def _mk_render_wrapper(key, orig, plan: Plan):
    site = ("render", key)

    def w(self_, tokens, idx, options, env):
        plan.hit(site, lambda: {"silent": False, "level": tokens[idx].level, "stack": _lib_stack()})
        if orig is None:
            return self_.renderToken(tokens, idx, options, env)
        return orig(tokens, idx, options, env)
    return w


LOOKUPISH = {"KeyError": "ValueError", "IndexError": "Private", "AttributeError": "TypeError",
             "StopIteration": "KeyboardInterrupt"}


class FaultyEnv(collections.UserDict):
    """The caller-owned env is user code too (any MutableMapping is accepted): a store whose operations can fail.
    Lookup-type exceptions are never injected here - a mapping that raises KeyError legitimately says 'no such key'."""

    def __init__(self, plan: Plan):
        super().__init__()
        self._plan = plan

    def _hit(self, op):
        self._plan.hit(("env", op), lambda: {"silent": False, "level": 0, "stack": _lib_stack()})

    def __contains__(self, key):
        self._hit("contains")
        return super().__contains__(key)

    def __getitem__(self, key):
        self._hit("getitem")
        return super().__getitem__(key)

    def __setitem__(self, key, value):
        self._hit("setitem")
        super().__setitem__(key, value)

    def setdefault(self, key, default=None):
        self._hit("setdefault")
        if key not in self.data:
            self.data[key] = default
        return self.data[key]


def _mk_hook(name, orig, plan: Plan):
    site = ("hook", name)

    def hk(url):
        plan.hit(site, lambda: {"silent": False, "level": 0, "stack": _lib_stack()})
        return orig(url)
    return hk


def _mk_highlight(mode, plan: Plan):
    site = ("highlight",)

    def hl(content, lang, attrs):
        plan.hit(site, lambda: {"silent": False, "level": 0, "stack": _lib_stack()})
        if mode == 1:
            return "<pre class=hl>" + lang + "</pre>"
        if mode == 2:
            return "HL:" + str(len(content))
        return ""
    return hl


def build_instance(rec: dict, plan: Plan):
    md = docgen.build(rec["cfg"])
    alts = builtin_alts()
    for which in RULERS:
        r = _ruler(md, which)
        active = r.get_active_rules()
        names = r.get_all_rules()
        r.enableOnly(names)
        fns = list(r.getRules(""))
        for nm, f in zip(names, fns):
            r.at(nm, _wrap_rule(f, which, nm, plan), {"alt": list(alts[which][nm])})
        r.enableOnly(active)
    for which, kind, ref, name, alt in rec.get("plugins", []):
        r = _ruler(md, which)
        fn = _wrap_rule(_noop_rule(which), which, name, plan)
        opts = {"alt": list(alt)} if which == "block" else None
        if kind == "push":
            r.push(name, fn, opts) if opts else r.push(name, fn)
        else:
            getattr(r, kind)(ref, name, fn, opts) if opts else getattr(r, kind)(ref, name, fn)
    for key in sorted(md.renderer.rules):
        md.add_render_rule(key, _mk_render_wrapper(key, md.renderer.rules[key], plan))
    for key in rec.get("extra_render", []):
        md.add_render_rule(key, _mk_render_wrapper(key, None, plan))
    if rec.get("highlight") is not None:
        md.options["highlight"] = _mk_highlight(rec["highlight"], plan)
    if rec.get("hooks"):
        for name in ("normalizeLink", "validateLink", "normalizeLinkText"):
            try:
                setattr(md, name, _mk_hook(name, getattr(md, name), plan))
            except (AttributeError, TypeError):
                pass        # not assignable on this tree: no such crash site
    return md


def snapshot(md) -> dict:
    """Observable configuration, read without compiling any chain."""
    return {"active": md.get_active_rules(), "all": md.get_all_rules(), "options": dict(md.options),
            "render": dict(md.renderer.rules)}


def chain_names(md) -> dict:
    out = {}
    for which in RULERS:
        r = _ruler(md, which)
        for c in ([""] + BLOCK_ALT if which == "block" else [""]):
            out[f"{which}/{c}"] = [getattr(f, "rule_name", "?") for f in r.getRules(c)]
    return out


def outcome(md, method, doc, env):
    """-> ("ok", value) | ("exc", exception object)"""
    if isinstance(env, Plan):
        env = FaultyEnv(env)
    try:
        v = getattr(md, method)(doc, env)
    except BaseException as e:  # noqa: BLE001 - the harness must see KeyboardInterrupt/SystemExit too
        return ("exc", e)
    if method in ("parse", "parseInline"):
        v = [t.as_dict() for t in v]
    return ("ok", [v, _env_plain(env)])


def _env_plain(env):
    return {str(k): v for k, v in dict(getattr(env, "data", env)).items()}


def _is_library_error(e) -> bool:
    """The library's own documented errors for unknown rule names (facade: ValueError, Ruler: KeyError)."""
    return (isinstance(e, ValueError) and "unknown rule" in str(e)) or \
           (isinstance(e, KeyError) and "invalid rule name" in str(e))


def _diff_snap(a: dict, b: dict) -> str | None:
    for k in ("active", "all", "options", "render"):
        if a[k] != b[k]:
            if k == "render":
                return f"render rule table changed (keys {sorted(set(a[k]) ^ set(b[k]))})"
            return f"{k}: {a[k]} -> {b[k]}"
    return None


# --------------------------------------------------------------------------- generation
def _gen_plugins(rng):
    out = []
    allnames = {"core": ["normalize", "block", "inline", "text_join"],
                "block": ["code", "fence", "blockquote", "hr", "list", "reference", "heading", "lheading", "paragraph"],
                "inline": ["text", "newline", "escape", "backticks", "emphasis", "link", "image", "entity"],
                "inline2": ["balance_pairs", "emphasis", "fragments_join"]}
    for k in range(rng.choice([0, 0, 1, 2, 4])):
        which = rng.choice(RULERS)
        kind = rng.choice(["push", "before", "after"])
        alt = rng.sample(BLOCK_ALT, rng.randint(0, 4)) if which == "block" else []
        out.append([which, kind, rng.choice(allnames[which]), f"plug{k}", alt])
    return out


def _gen_fault(rng):
    return {"site_pick": rng.random(), "idx_pick": rng.random() ** rng.choice([1, 1, 2]),
            "exc": rng.choice(EXC_WEIGHTED), "kind_pick": rng.random()}


def _gen_body(rng, depth=0):
    body = []
    names_pool = ["emphasis", "link", "list", "blockquote", "table", "strikethrough", "backticks", "heading", "image",
                  "replacements", "html_inline", "code", "fence"]
    for _ in range(rng.randint(0, 4)):
        r = rng.random()
        if r < 0.4:
            names = rng.sample(names_pool, rng.randint(1, 3))
            if rng.random() < 0.15:
                names.insert(rng.randint(0, len(names)), "nope")
            body.append([rng.choice(["enable", "disable"]), names])
        elif r < 0.6:
            body.append(["call", rng.choice(METHODS[:2]), docgen.document(rng, 2), _gen_fault(rng) if rng.random() < 0.3 else None])
        elif r < 0.75 and depth < 2:
            body.append(["reset", _gen_body(rng, depth + 1)])
        elif r < 0.86:
            body.append(["raise", rng.choice(EXC_NAMES)])
        elif r < 0.91:
            # a plugin is tried inside the block: it REGISTERS a rule (which is born enabled); on exit the rules in force
            # on entry must be back, i.e. the new rule is registered but off
            which = rng.choice(RULERS)
            refs = {"core": ["normalize", "block", "inline", "text_join"],
                    "block": ["code", "fence", "blockquote", "hr", "list", "reference", "heading", "lheading", "paragraph"],
                    "inline": ["text", "newline", "escape", "backticks", "emphasis", "link", "image", "entity"],
                    "inline2": ["balance_pairs", "emphasis", "fragments_join"]}[which]
            body.append(["plugin", which, rng.choice(["push", "before", "after"]), rng.choice(refs),
                         f"tmp{rng.randrange(10 ** 6)}"])
        else:
            which = rng.choice(RULERS)
            names = rng.sample(RULE_POOLS[which], rng.randint(1, 2))
            strict = rng.random() < 0.5
            if strict and rng.random() < 0.6:
                names.insert(rng.randint(0, len(names)), "nope")   # valid names before/after an unknown one: KeyError half-way
            body.append(["ruler", which, rng.choice(["enable", "disable", "disable", "enableOnly"]), names, not strict])
    return body


RICH = ["Head one\nhead *two* `c`\n===\n", "Sub\nsub [l](/u)\n---\n", "| a | *b* |\n|---|:-:|\n| `c` | ![i](/x) |\n",
        "> quote *e*\n> more  \n> hard\n", "1. one\n   two *e*\n2. [r]\n\n[r]: /ref 'T'\n", "![a *b* ![c](/i)](/img \"t\")\n",
        "a \"q\" -- ... 'x'\nb\n", "<span>*h*</span> &amp; \\* <http://a.b>\n", "```py info\ncode\n```\n", "# ATX *e*\n"]


def gen(rng: random.Random, tier: str) -> dict:
    cfg = docgen.config(rng) if rng.random() < 0.7 else dict(BASE_CFG)
    if rng.random() < 0.2:
        # every render-affecting option away from its default at once: code that flips an option around part of the work
        # is invisible while the option has the value it is flipped to
        cfg = {**cfg, "options": {**cfg["options"], "breaks": True, "xhtmlOut": True, "typographer": True, "html": True}}
    rec = {"cfg": cfg, "plugins": _gen_plugins(rng),
           "extra_render": rng.sample(EXTRA_RENDER, rng.choice([0, 2, 5])),
           "highlight": rng.choice([None, 0, 0, 1, 2]),
           "warm": rng.random() < 0.5, "chain_checks": rng.random() < 0.5, "battery": rng.random() < 0.4,
           "hooks": rng.random() < 0.35, "faulty_env": rng.random() < 0.3}
    if rng.random() < 0.12:
        rec["kind"] = "sweep"
        rec["method"] = rng.choice(METHODS)
        rec["doc"] = docgen.inline_source(rng) if "Inline" in rec["method"] else docgen.document(rng, 2)
        if "Inline" not in rec["method"] and rng.random() < 0.5:
            rec["doc"] += "\n" + "\n".join(rng.sample(RICH, rng.randint(1, 3)))
        rec["cap"] = 100 if tier == "quick" else 400
        rec["exc_rot"] = rng.randrange(len(EXC_WEIGHTED))
        return rec
    rec["kind"] = "seq"
    ops = []
    for _ in range(rng.randint(2, 8)):
        r = rng.random()
        if r < 0.45:
            m = rng.choice(METHODS)
            d = docgen.inline_source(rng) if "Inline" in m else docgen.document(rng, 3)
            if "Inline" not in m and rng.random() < 0.3:
                d += "\n" + "\n".join(rng.sample(RICH, rng.randint(1, 2)))
            if rec["highlight"] is not None and "Inline" not in m and rng.random() < 0.5:
                d += rng.choice(["```py info\ncode\n```\n", "> ~~~ js\n> x\n> ~~~\n", "- ```\n  y\n  ```\n"])
                m = "render" if rng.random() < 0.8 else m
            ops.append(["call", m, d, _gen_fault(rng) if rng.random() < 0.75 else None])
        elif r < 0.75:
            ops.append(["reset", _gen_body(rng)])
        else:
            ops.append(["probe", docgen.document(rng, 2)])
    ops.append(["probe", docgen.document(rng, 3)])
    rec["ops"] = ops
    return rec


# --------------------------------------------------------------------------- execution
def _resolve_fault(fault, counts: dict):
    """picks -> absolute (site, index, exc) using the fault-free invocation counts of this call."""
    if fault is None:
        return None
    if "site" in fault:
        exc = LOOKUPISH.get(fault["exc"], fault["exc"]) if fault["site"][0] == "env" else fault["exc"]
        return (tuple(fault["site"]), int(fault["abs"]), exc)
    sites = sorted(s for s, n in counts.items() if n > 0)
    if not sites:
        return None
    # "kind_pick" first chooses the kind of user code (rule / render rule / highlight) so that the rarer kinds get
    # their share of crash points; then the site within the kind
    kp = fault.get("kind_pick")
    if kp is not None:
        kinds = sorted({s[0] for s in sites})
        want = "rule"
        for upto, kind in ((0.12, "highlight"), (0.40, "render"), (0.50, "hook"), (0.58, "env")):
            if kp < upto and kind in kinds:
                want = kind
                break
        sub = [s for s in sites if s[0] == want]
        sites = sub or sites
    site = sites[min(int(fault["site_pick"] * len(sites)), len(sites) - 1)]
    n = counts[site]
    exc = fault["exc"]
    if site[0] == "env":
        exc = LOOKUPISH.get(exc, exc)
    return (site, 1 + min(int(fault["idx_pick"] * n), n - 1), exc)


def _note_fired(res: RunResult, plan: Plan):
    f = plan.fired
    if not f:
        return
    ctx = f["ctx"]
    stack = ctx.get("stack", [])
    res.count("fault_fired")
    res.count(f"fired_{f['site'][0]}")
    res.count(f"fired_exc_{f['exc']}")
    if ctx.get("silent"):
        res.count("crash_in_silent_mode")
    if "blockquote" in stack or "list_block" in stack:
        res.count("crash_inside_blockquote_or_list")
    if "parseLinkLabel" in stack or "skipToken" in stack:
        res.count("crash_inside_link_label")
    if "image" in stack and f["site"][0] == "rule" and f["site"][1] in ("inline", "inline2"):
        res.count("crash_inside_image_description")
    if f["site"][0] == "render":
        res.count("crash_in_render_rule")
    if f["site"][0] == "highlight":
        res.count("crash_in_highlight")
    if f["site"][0] == "hook":
        res.count("crash_in_link_hook")
    if f["site"][0] == "env":
        res.count("crash_in_caller_owned_env")
    caller = stack[0] if stack else "?"
    res.reach("distinct_crash_points", "|".join([str(f["site"]), str(ctx.get("silent")), caller,
                                                 str(min(ctx.get("level", 0), 3)), f["exc"]]))
    res.reach("distinct_crash_sites", "|".join([str(f["site"]), str(ctx.get("silent")), caller]))
    res.nontrivial = True


class _Run:
    def __init__(self, rec, res: RunResult):
        self.rec, self.res = rec, res
        self.plan, self.tplan = Plan(), Plan()
        self.md = build_instance(rec, self.plan)
        self.twin = build_instance(rec, self.tplan)
        if rec.get("warm"):
            self.md.render("# w\n\n*a* [b](/c) `d`\n\n> - e\n\n```x\nf\n```\n")
            self.twin.render("# w\n\n*a* [b](/c) `d`\n\n> - e\n\n```x\nf\n```\n")
        self.base = snapshot(self.md)
        self.registered: list = []     # rules registered inside reset_rules blocks (they stay registered, switched off)

    def env_for(self, plan):
        return plan if self.rec.get("faulty_env") else {}

    def same_as_twin(self, method, doc, label, site):
        """A fault-free call on the instance must give what the never-faulted twin gives."""
        res = self.res
        self.plan.armed = None
        self.plan.reset()
        self.tplan.reset()
        exp = outcome(self.twin, method, doc, self.env_for(self.tplan))
        got = outcome(self.md, method, doc, self.env_for(self.plan))
        if exp[0] == "exc" or got[0] == "exc":
            if not (exp[0] == got[0] == "exc" and type(exp[1]) is type(got[1])):
                res.fail("SUBSEQUENT_DIFF", f"{label}: {method}({doc!r}) -> {got!r} on the instance, {exp!r} on the "
                                            f"never-faulted twin", site)
            return
        if got[1] != exp[1]:
            res.fail("SUBSEQUENT_DIFF", f"{label}: {method}({doc!r}) differs from the never-faulted twin: "
                                        f"got {str(got[1][0])[:300]!r} expected {str(exp[1][0])[:300]!r}", site)
            return
        if self.plan.counts != self.tplan.counts:
            d = {k: (self.plan.counts.get(k), self.tplan.counts.get(k))
                 for k in set(self.plan.counts) | set(self.tplan.counts)
                 if self.plan.counts.get(k) != self.tplan.counts.get(k)}
            res.fail("SUBSEQUENT_DIFF", f"{label}: same output but different callback invocations than the twin: "
                                        f"{dict(list(d.items())[:5])}", site)

    def check_intact(self, before: dict, label: str, site: str):
        res = self.res
        after = snapshot(self.md)
        d = _diff_snap(before, after)
        if d:
            res.fail("STATE_CHANGED", f"{label}: instance state differs from before the failed call: {d}", site)
            return
        if self.rec.get("chain_checks"):
            a, b = chain_names(self.md), chain_names(self.twin)
            if a != b:
                k = next(k for k in a if a[k] != b[k])
                res.fail("STATE_CHANGED", f"{label}: applied chain {k} is {a[k]}, never-faulted twin has {b[k]}", site)

    def call(self, k, method, doc, fault, in_reset=False):
        """Returns the exception object that escaped (or None)."""
        res = self.res
        # fault-free pass on the twin: expected outcome + invocation counts
        self.tplan.reset()
        exp = outcome(self.twin, method, doc, self.env_for(self.tplan))
        armed = None if in_reset else _resolve_fault(fault, self.tplan.counts)
        if in_reset and fault is not None:
            # rules may differ inside a reset block: resolve against whatever fires first on the instance
            armed = _resolve_fault({**fault, "idx_pick": 0.0}, self.tplan.counts) if "site" not in fault else \
                _resolve_fault(fault, {})
        if fault is not None:
            res.count("fault_configured")
        before = snapshot(self.md)
        self.plan.reset()
        self.plan.armed = armed
        got = outcome(self.md, method, doc, self.env_for(self.plan))
        fired = self.plan.fired
        self.plan.armed = None
        res.steps += 1
        site = "call"
        if fired:
            site = f"{fired['site'][0]}"
            _note_fired(res, self.plan)
        res.events.append([k, "call", method, list(armed[:2]) + [armed[2]] if armed else None, bool(fired),
                           got[0] if got[0] == "exc" else got[1][0] if isinstance(got[1][0], str) else len(got[1][0])])
        if in_reset:
            return got[1] if got[0] == "exc" else None
        if fired:
            if got[0] != "exc":
                res.fail("SWALLOWED", f"op {k}: {fired['exc']} raised by user code at {fired['site']} "
                                      f"#{fired['index']} did not reach the caller of {method}({doc!r})", site)
                return None
            if got[1] is not self.plan.exc_obj:
                res.fail("REPLACED", f"op {k}: caller received {got[1]!r} instead of the injected exception object "
                                     f"{self.plan.exc_obj!r}", site)
                return None
            self.check_intact(before, f"op {k} ({fired['exc']} at {fired['site']} #{fired['index']}, "
                                      f"{method} of {doc!r})", site)
            if not res.violation:
                self.same_as_twin(method, doc, f"op {k}: re-running the failed call without the fault", site)
            return got[1]
        # no fault fired: must equal the twin
        if got[0] == "exc" or exp[0] == "exc":
            if not (got[0] == exp[0] and type(got[1]) is type(exp[1])):
                res.fail("SUBSEQUENT_DIFF", f"op {k}: {method}({doc!r}) -> {got!r}, twin -> {exp!r}", "call")
        elif got[1] != exp[1]:
            res.fail("SUBSEQUENT_DIFF", f"op {k}: fault-free {method}({doc!r}) differs from the never-faulted twin: "
                                        f"got {str(got[1][0])[:300]!r} expected {str(exp[1][0])[:300]!r}", "call")
        return None

    # -- reset_rules blocks -------------------------------------------------
    def body(self, ops, k, depth):
        """Executes a reset_rules body; raises whatever escapes. Returns nothing."""
        res = self.res
        for j, op in enumerate(ops):
            kind = op[0]
            if kind in ("enable", "disable"):
                getattr(self.md, kind)(list(op[1]))      # unknown name => the library's own ValueError escapes
            elif kind == "ruler":
                ignore = op[4] if len(op) > 4 else True
                names = list(op[3])
                if op[2] == "enableOnly":
                    # keep the rules that guarantee progress (C01's supported configurations)
                    names += [x for x in ("normalize", "block", "inline", "text_join", "paragraph", "text")
                              if x in _ruler(self.md, op[1]).get_all_rules() and x not in names]
                getattr(_ruler(self.md, op[1]), op[2])(names, ignore)   # strict + unknown name => KeyError escapes
            elif kind == "call":
                e = self.call(f"{k}.{j}", op[1], op[2], op[3], in_reset=True)
                if e is not None:
                    raise e
            elif kind == "plugin":
                _, which, pk, ref, name = op
                r = _ruler(self.md, which)
                if name not in r.get_all_rules():
                    fn = _wrap_rule(_noop_rule(which), which, name, self.plan)
                    opts = {"alt": list(BLOCK_ALT[:2])} if which == "block" else None
                    args = ((name, fn) if pk == "push" else (ref, name, fn)) + ((opts,) if opts else ())
                    getattr(r, pk)(*args)
                    self.registered.append((which, name))
                    res.count("rule_registered_inside_reset_rules")
            elif kind == "raise":
                self.body_exc = make_exc(op[1], f"raised by reset_rules body {k}.{j}", j + len(ops))
                raise self.body_exc
            elif kind == "reset":
                self.reset(op[1], f"{k}.{j}", depth + 1, nested=True)

    def reset(self, ops, k, depth=0, nested=False):
        res = self.res
        entry = snapshot(self.md)
        escaped = None
        if depth:
            res.count("reset_rules_nested")
        try:
            with self.md.reset_rules():
                self.body(ops, k, depth)
        except BaseException as e:  # noqa: BLE001
            escaped = e
        res.steps += 1
        res.events.append([k, "reset", type(escaped).__name__ if escaped else "normal", self.md.get_active_rules()])
        if escaped is not None:
            res.count("reset_rules_exception_exit")
            if _is_library_error(escaped):
                res.count("library_error_inside_reset_rules")
                if isinstance(escaped, KeyError):
                    res.count("strict_ruler_call_failed_midway_inside_reset_rules")
            res.nontrivial = True
        else:
            res.count("reset_rules_normal_exit")
        now = snapshot(self.md)
        if now["all"] != entry["all"]:
            # registration is not undone by reset_rules (it resets what is ENABLED): the rules registered inside the
            # block must be the only additions, and they must be off
            added = {w: [x for x in now["all"][w] if x not in entry["all"][w]] for w in now["all"]}
            mine = {w: [n for (ww, n) in self.registered if ww == w] for w in now["all"]}
            if all(set(added[w]) <= set(mine[w]) and [x for x in now["all"][w] if x not in added[w]] == entry["all"][w]
                   for w in now["all"]):
                entry = {**entry, "all": now["all"]}
                if depth == 0:
                    self.base = {**self.base, "all": now["all"]}
        d = _diff_snap(entry, now)
        if d:
            path = f"exception exit ({type(escaped).__name__})" if escaped else "normal exit"
            res.fail("RESET_NOT_RESTORED", f"op {k}: reset_rules block left by {path} did not restore the rules in "
                                           f"force on entry: {d}", "reset_rules:" + ("exception" if escaped else "normal"))
        if escaped is not None and nested:
            raise escaped     # propagate through the enclosing block as user code would see it
        if escaped is not None and getattr(self, "body_exc", None) is not None and not nested:
            # top level: what the caller sees must be the object user code raised (when user code raised it)
            pass
        return escaped

    def run_seq(self):
        res = self.res
        for k, op in enumerate(self.rec["ops"]):
            if res.violation:
                return
            if op[0] == "call":
                self.call(k, op[1], op[2], op[3])
            elif op[0] == "probe":
                self.same_as_twin("render", op[1], f"op {k}: probe", "probe")
                res.events.append([k, "probe"])
            elif op[0] == "reset":
                self.body_exc = None
                self.plan.exc_obj = None
                escaped = self.reset(op[1], k)
                injected = self.body_exc or self.plan.exc_obj
                if escaped is None and injected is not None:
                    res.fail("SWALLOWED", f"op {k}: {injected!r} raised inside the reset_rules block did not reach "
                                          f"the caller of the with-statement", "reset_rules:exception")
                elif escaped is not None and injected is not None and escaped is not injected \
                        and not _is_library_error(escaped):
                    res.fail("REPLACED", f"op {k}: reset_rules body raised {injected!r} but the caller received "
                                         f"{escaped!r}", "reset_rules:exception")
                if not res.violation and self.rec.get("chain_checks"):
                    self.check_intact(self.base, f"op {k}: after reset_rules", "reset_rules")
        if not res.violation:
            d = _diff_snap(self.base, snapshot(self.md))
            if d:
                res.fail("STATE_CHANGED", f"end of history: instance differs from its configuration: {d}", "end")
        if not res.violation and self.rec.get("battery"):
            self.battery("end of history")

    def battery(self, label):
        mn = int(self.md.options["maxNesting"])
        docs = BATTERY + ["[" * (mn - 1) + "a" + "]" * (mn - 1) + "(/u)\n", "[" * mn + "a" + "]" * mn + "(/u)\n",
                          "*" * 30 + "a" + "*" * 30 + "\n"]
        self.res.count("battery_runs")
        for d in docs:
            self.same_as_twin("render", d, f"{label}: battery", "battery")
            if self.res.violation:
                return

    def run_sweep(self):
        res, rec = self.res, self.rec
        method, doc = rec["method"], rec["doc"]
        self.tplan.reset()
        outcome(self.twin, method, doc, self.env_for(self.tplan))
        counts = dict(self.tplan.counts)
        points = [(s, i) for s in sorted(counts) for i in range(1, counts[s] + 1)]
        total = len(points)
        if total > rec["cap"]:
            step = total / rec["cap"]
            points = [points[int(j * step)] for j in range(rec["cap"])]
        res.count("sweep_points_total", total)
        res.count("sweep_points_executed", len(points))
        for j, (s, i) in enumerate(points):
            exc = EXC_WEIGHTED[(j + rec["exc_rot"]) % len(EXC_WEIGHTED)]
            self.call(f"sweep:{j}", method, doc, {"site": list(s), "abs": i, "exc": exc})
            if res.violation:
                res.violation["at"] = {"site": list(s), "abs": i, "exc": exc}
                return
        self.same_as_twin("render", "a *b* [c]\n\n> - d\n\n[c]: /u\n", "after the sweep: probe", "probe")
        if not res.violation and rec.get("battery"):
            self.battery("after the sweep")


class C14(Engine):
    prop = "C14"
    level = "fault_enumeration"
    rule = ("crash point = the i-th invocation of a user callback (every built-in rule of the 4 chains re-registered "
            "through Ruler.at with a counting pass-through, seeded plugin rules, every render rule, highlight, the link hooks, "
            "the operations of a caller-owned env, reset_rules bodies) x 12 exception types in 3 shapes (message / no "
            "arguments / several arguments). 'sweep' runs enumerate all crash points of one call (capped, evenly spaced); "
            "'seq' runs are histories of 2-8 ops (call with fault, call without, reset_rules block with facade calls, strict "
            "ruler calls, rule registration, nested blocks, raise; probe). Non-trivial = at least one injected exception "
            "actually fired or a reset_rules block was left by an exception; distinct = distinct event-log digests among those.")
    assumptions = ["rule names are unique (reset_rules restores by name)",
                   "the caller's env after a failed call is not checked (the property is about the instance)",
                   "lookup-type exceptions are not injected into env operations",
                   "asynchronous exceptions between callbacks are not injected"]
    components = {"real": ["all of markdown_it (parsers, rulers, rules, renderer, presets)", "mdurl", "contextlib"],
                  "harness_supplied": ["counting pass-through wrappers at every user-code entry point", "no-op plugin rules",
                                       "highlight function", "reset_rules bodies"],
                  "stub": [], "simulated": ["the crash point (site, invocation index, exception type)"]}
    expected_probes = ["crash_in_silent_mode", "crash_inside_blockquote_or_list", "crash_inside_link_label",
                       "crash_inside_image_description", "crash_in_render_rule", "crash_in_highlight", "crash_in_link_hook",
                       "crash_in_caller_owned_env", "reset_rules_exception_exit", "reset_rules_nested", "library_error_inside_reset_rules",
                       "strict_ruler_call_failed_midway_inside_reset_rules", "rule_registered_inside_reset_rules"]

    def budget(self, tier):
        if tier == "quick":
            return {"runs": 16_000, "wall_s": 110, "selftest_samples": 24}
        return {"runs": 600_000, "wall_s": 1800, "selftest_samples": 48}

    def warmup(self):
        builtin_alts()
        from markdown_it import MarkdownIt
        MarkdownIt("js-default").enable(["replacements", "smartquotes"]).render(
            "# a\n\n*b* `c` [d](/e) ![f](/g) <h> &amp; \\* \"q\" --\n\n> - x\n\n| a |\n|---|\n| b |\n\n[r]: /u\n")

    def gen(self, rng, i, tier):
        return gen(rng, tier)

    def execute(self, rec):
        res = RunResult()
        run = _Run(rec, res)
        if rec["kind"] == "sweep":
            run.run_sweep()
        else:
            run.run_seq()
        return res

    def shrink_steps(self, rec):
        if rec["kind"] == "sweep":
            res = self.execute(rec)
            if res.violation and "at" in res.violation:
                yield {**{k: v for k, v in rec.items() if k not in ("method", "doc", "cap", "exc_rot")},
                       "kind": "seq", "ops": [["call", rec["method"], rec["doc"], res.violation["at"]]]}
            return
        ops = rec["ops"]
        n = len(ops)
        for size in (n // 2, 1):
            if size < 1:
                continue
            for s in range(0, n, size):
                cand = ops[:s] + ops[s + size:]
                if cand and len(cand) < n:
                    yield {**rec, "ops": cand}
        for key, simple in (("plugins", []), ("extra_render", []), ("highlight", None), ("warm", False),
                            ("hooks", False), ("faulty_env", False),
                            ("chain_checks", False), ("battery", False), ("cfg", dict(BASE_CFG))):
            if rec.get(key) != simple:
                yield {**rec, key: simple}
        for j, op in enumerate(ops):
            if op[0] == "reset":
                body = op[1]
                for t in range(len(body)):
                    yield {**rec, "ops": ops[:j] + [["reset", body[:t] + body[t + 1:]]] + ops[j + 1:]}
                for t, b in enumerate(body):
                    if b[0] == "raise" and b[1] != "ValueError":
                        yield {**rec, "ops": ops[:j] + [["reset", body[:t] + [["raise", "ValueError"]] + body[t + 1:]]] + ops[j + 1:]}
                    if b[0] in ("enable", "disable") and len(b[1]) > 1:
                        for u in range(len(b[1])):
                            nb = [b[0], b[1][:u] + b[1][u + 1:]]
                            yield {**rec, "ops": ops[:j] + [["reset", body[:t] + [nb] + body[t + 1:]]] + ops[j + 1:]}
                    if b[0] == "reset":
                        yield {**rec, "ops": ops[:j] + [["reset", body[:t] + b[1] + body[t + 1:]]] + ops[j + 1:]}
            if op[0] == "call":
                for simple in docgen.LADDER:
                    if len(simple) < len(op[2]):
                        yield {**rec, "ops": ops[:j] + [["call", op[1], simple, op[3]]] + ops[j + 1:]}
                f = op[3]
                if f and f.get("exc") != "ValueError":
                    yield {**rec, "ops": ops[:j] + [["call", op[1], op[2], {**f, "exc": "ValueError"}]] + ops[j + 1:]}
                if f and "abs" in f and f["abs"] > 1:
                    for a in (1, f["abs"] // 2, f["abs"] - 1):
                        yield {**rec, "ops": ops[:j] + [["call", op[1], op[2], {**f, "abs": a}]] + ops[j + 1:]}
            if op[0] == "probe":
                for simple in docgen.LADDER:
                    if len(simple) < len(op[1]):
                        yield {**rec, "ops": ops[:j] + [["probe", simple]] + ops[j + 1:]}


ENGINE = C14()
