"""C11 - rule management is coherent over any history, including failed calls.

Engine `hist-ruler` (DESIGN.md section 6): seeded histories of rule-management calls, the calls that
raise half-way being this property's crash points; oracle = executable reference model of a rule
chain + coherence "applied == reported" + (facade) a twin instance that is told the reported rules.
"""

from __future__ import annotations

import copy
import random

from ..core import Engine, RunResult, ddmin_list
from .. import docgen

NAMES = ["a", "b", "c", "d", "zz"]
CHAINS = ["", "p", "q", "nochain"]
ALTS = [[], ["p"], ["q"], ["p", "q"], ["q", "p"], ["p", "p"], [""], ["", "p"], ["q", "", "q"]]


# =========================================================================== (a) bare Ruler
def _gen_names(rng: random.Random, registered: list[str], p_unknown: float) -> tuple[list[str], str]:
    form = rng.choice(["str", "list", "list", "tuple", "gen", "empty"])
    pool = registered or ["a"]
    if form == "str":
        return [rng.choice(pool) if rng.random() > p_unknown else rng.choice(["zz", "nope"])], "str"
    if form == "empty":
        return [], rng.choice(["list", "tuple"])
    names = [rng.choice(pool) for _ in range(rng.randint(1, 3))]
    if rng.random() < p_unknown:
        names.insert(rng.randint(0, len(names)), rng.choice(["zz", "nope"]))
    return names, form


def gen_ruler(rng: random.Random) -> dict:
    n = rng.choice([3, 5, 8, 12, 18, 25])
    allow_dup = rng.random() < 0.35
    p_unknown = rng.choice([0.0, 0.15, 0.3, 0.5])
    p_get = rng.choice([0.15, 0.3, 0.5])
    registered: list[str] = []
    ops: list = []
    fid = 0
    # the same function object may be registered under several (unique) names: plugins do share helpers
    share = (not allow_dup) and rng.random() < 0.3

    def next_fid():
        nonlocal fid
        if share and fid > 0 and rng.random() < 0.45:
            return rng.randrange(fid)          # an already registered function again
        fid += 1
        return fid - 1
    # start: a few pushes
    for _ in range(rng.randint(1, 4)):
        cand = [x for x in NAMES[:4] if allow_dup or x not in registered]
        if not cand:
            break
        nm = rng.choice(cand)
        ops.append(["push", nm, next_fid(), rng.choice(ALTS + [None])])
        registered.append(nm)
    while len(ops) < n:
        r = rng.random()
        if r < p_get:
            ops.append(["get", rng.choice(CHAINS)])
        elif r < p_get + 0.2:
            kind = rng.choice(["push", "before", "after", "at", "at"])
            cand = [x for x in NAMES if allow_dup or x not in registered]
            ref = rng.choice(registered) if (registered and rng.random() > p_unknown * 0.6) else rng.choice(["zz", "nope"])
            alt = rng.choice(ALTS + [None, None])
            if kind == "at":
                ops.append(["at", ref, next_fid(), alt])
            elif cand:
                nm = rng.choice(cand)
                if kind == "push":
                    ops.append(["push", nm, next_fid(), alt])
                    registered.append(nm)
                else:
                    ops.append([kind, ref, nm, next_fid(), alt])
                    if ref in registered:
                        registered.append(nm)
        else:
            kind = rng.choice(["enable", "disable", "enableOnly", "enable", "disable"])
            names, form = _gen_names(rng, registered, p_unknown)
            ops.append([kind, names, rng.random() < 0.3, form])
    # sparse observation: the reporting calls (get_all_rules / get_active_rules) are themselves calls of the history - a
    # harness that asks after every step would flush any memo behind them; here they happen only at 'get' steps and
    # after failed calls
    return {"kind": "ruler", "ops": ops, "shared_fns": share, "sparse": rng.random() < 0.35,
            "scribble": rng.random() < 0.25}


class _Model:
    """Reference model of one rule chain: ordered records, first-match lookup (~40 lines)."""

    def __init__(self):
        self.recs: list[dict] = []

    def find(self, name):
        for i, r in enumerate(self.recs):
            if r["name"] == name:
                return i
        return -1

    def has_dups(self):
        ns = [r["name"] for r in self.recs]
        return len(ns) != len(set(ns))

    def all(self):
        return [r["name"] for r in self.recs]

    def active(self):
        return [r["name"] for r in self.recs if r["on"]]

    def set_many(self, names, value, ignore, only=False):
        """-> (found, failed, state_if_partial). Applies fully when no failure."""
        if only:
            for r in self.recs:
                r["on"] = False
        found = []
        for nm in names:
            i = self.find(nm)
            if i < 0:
                if ignore:
                    continue
                return found, True
            self.recs[i]["on"] = value
            found.append(nm)
        return found, False


def _mk_fn(fid: int):
    def rule_fn(*a, **k):  # never called in the bare-ruler engine
        return False
    rule_fn.fid = fid
    return rule_fn


def _as_form(names: list[str], form: str):
    if form == "str":
        return names[0]
    if form == "tuple":
        return tuple(names)
    if form == "gen":
        return (x for x in list(names))
    return list(names)


def run_ruler(rec: dict, res: RunResult) -> None:
    from markdown_it.ruler import Ruler

    ruler = Ruler()
    model = _Model()
    fns: dict[int, object] = {}
    fn_name: dict[int, str] = {}
    fn_alt: dict[int, list] = {}        # candidate alts (list of lists) until observed
    dup_mode = False
    compiled = False   # has a read compiled the cache since the last mutator?
    ever_compiled = False
    last_mut = "none"

    def fid_of(f):
        return getattr(f, "fid", None)

    shared = bool(rec.get("shared_fns"))

    def coherence(chain: str, k: int):
        nonlocal compiled, ever_compiled
        try:
            main = list(ruler.getRules(""))
            applied = list(ruler.getRules(chain))
        except Exception as e:  # noqa: BLE001
            res.fail("UNEXPECTED_EXCEPTION", f"op {k}: getRules({chain!r}) raised {type(e).__name__}: {e}", last_mut)
            return
        compiled = True
        ever_compiled = True
        reported = ruler.get_active_rules()
        allr = ruler.get_all_rules()
        main_ids = [fid_of(f) for f in main]
        if None in main_ids or any(i not in fns for i in main_ids):
            res.fail("COHERENCE", f"op {k}: getRules('') returned a function that was never registered", last_mut)
            return
        app_ids = [fid_of(f) for f in applied]
        res.events.append([k, "get", chain, main_ids, app_ids])
        on_recs = [r for r in model.recs if r["on"]]
        if not dup_mode:
            # names are unique: the model knows exactly which function (object) stands where
            exp_ids = [r["fid"] for r in on_recs]
            if main_ids != exp_ids:
                res.fail("COHERENCE", f"op {k}: applied functions {main_ids} are not the functions registered for the "
                                      f"active rules {[r['name'] for r in on_recs]} = {exp_ids} (reported active "
                                      f"{reported}; after {last_mut})", last_mut)
                return
            if [r["name"] for r in on_recs] != reported:
                res.fail("COHERENCE", f"op {k}: applied main chain {[r['name'] for r in on_recs]} != reported active "
                                      f"{reported} (after {last_mut})", last_mut)
                return
            if allr != model.all():
                res.fail("SET_SEMANTICS", f"op {k}: get_all_rules() = {allr}, model {model.all()} (after {last_mut})",
                         last_mut)
                return
        else:
            main_names = [fn_name[i] for i in main_ids]
            if main_names != reported:
                res.fail("COHERENCE", f"op {k}: applied main chain {main_names} != reported active {reported} "
                                      f"(after {last_mut})", last_mut)
                return
            if len(set(main_ids)) != len(main_ids):
                res.fail("COHERENCE", f"op {k}: a function occurs twice in the applied chain: {main_ids}", last_mut)
                return
        # reported active is a sub-sequence of all rules
        it = iter(allr)
        if not all(any(x == y for y in it) for x in reported):
            res.fail("COHERENCE", f"op {k}: active {reported} is not a sub-sequence of all rules {allr}", last_mut)
            return
        if chain == "":
            return
        if chain == "nochain":
            if app_ids:
                res.fail("CHAIN_MEMBERSHIP", f"op {k}: unknown chain returned {app_ids}", last_mut)
            return
        # expected: the active rules, in order, whose registration declared `chain` (once each, however often named)
        ok = False
        for pick in (0, 1):
            if not dup_mode:
                exp = [r["fid"] for r in on_recs if chain in r["alts"][min(pick, len(r["alts"]) - 1)]]
            else:
                exp = [i for i in main_ids if chain in fn_alt[i][min(pick, len(fn_alt[i]) - 1)]]
            if exp == app_ids:
                ok = True
                if pick == 1:
                    res.count("at_none_kept_old_alt")
                break
        if not ok:
            alts = [r["alts"] for r in on_recs] if not dup_mode else [fn_alt[i] for i in main_ids]
            res.fail("CHAIN_MEMBERSHIP",
                     f"op {k}: getRules({chain!r}) = {app_ids}, expected the members of the main chain "
                     f"{main_ids} that declared the chain (alts {alts})", last_mut)

    for k, op in enumerate(rec["ops"]):
        kind = op[0]
        if res.violation:
            break
        if kind == "get":
            coherence(op[1], k)
            if rec.get("scribble"):
                # what the reporting calls hand out belongs to the caller: emptying it must not reach anything
                # (not getRules: handing out the compiled chain itself is the documented upstream design)
                for lst in (ruler.get_active_rules(), ruler.get_all_rules()):
                    if isinstance(lst, list):
                        lst.clear()
                res.count("caller_emptied_returned_lists")
                if not res.violation:
                    coherence(op[1], k)
            continue
        if compiled:
            res.nontrivial = True
        sparse = bool(rec.get("sparse")) and not dup_mode
        if sparse:
            before_all, before_active = model.all(), model.active()
        else:
            before_all, before_active = ruler.get_all_rules(), ruler.get_active_rules()
        raised = None
        ret = None
        # ---- apply to the implementation
        try:
            if kind == "push":
                _, nm, fid, alt = op
                fns.setdefault(fid, _mk_fn(fid))
                fn_name[fid] = nm
                fn_alt[fid] = [list(alt or [])]
                if alt is None:
                    ruler.push(nm, fns[fid]) if fid % 2 else ruler.push(nm, fns[fid], None)
                else:
                    ruler.push(nm, fns[fid], {"alt": list(alt)})
            elif kind in ("before", "after"):
                _, ref, nm, fid, alt = op
                fns.setdefault(fid, _mk_fn(fid))
                fn_name[fid] = nm
                fn_alt[fid] = [list(alt or [])]
                args = (ref, nm, fns[fid]) + (() if alt is None else ({"alt": list(alt)},))
                getattr(ruler, kind)(*args)
            elif kind == "at":
                _, ref, fid, alt = op
                fns.setdefault(fid, _mk_fn(fid))
                fn_name[fid] = ref
                i = model.find(ref)
                old_alt = model.recs[i]["alt"] if (i >= 0 and not dup_mode) else None
                fn_alt[fid] = [list(alt or [])]
                if alt is None and old_alt is not None and old_alt != []:
                    fn_alt[fid].append(list(old_alt))  # options omitted: keeping the old alt is accepted too
                elif alt is None and dup_mode:
                    fn_alt[fid] = [[], ["p"], ["q"], ["p", "q"]]  # unknown which record was replaced
                args = (ref, fns[fid]) + (() if alt is None else ({"alt": list(alt)},))
                ruler.at(*args)
            else:
                _, names, ignore, form = op
                ret = getattr(ruler, kind)(_as_form(names, form), ignore)
        except Exception as e:  # noqa: BLE001
            raised = e
        last_mut = f"{kind}:{'raised' if raised else 'ok'}"
        observed = (not sparse) or raised is not None
        if observed:
            after_all, after_active = ruler.get_all_rules(), ruler.get_active_rules()
        else:
            after_all = after_active = None      # not asked: the model carries the expectation to the next 'get'
            res.count("steps_without_observation")
        res.events.append([k, kind, type(raised).__name__ if raised else "ok", after_all, after_active])
        res.steps += 1
        if raised is not None:
            res.count("failed_calls")
            if compiled:
                res.count("failed_call_after_compiled_cache")
            if kind == "enableOnly":
                res.count("enableOnly_failed_midway")
        compiled = False

        # ---- the model
        if dup_mode:
            res.count("duplicate_name_ops")
            # only bookkeeping-free sanity in duplicate mode (set semantics are ambiguous there)
            if kind in ("push", "before", "after") and raised is None:
                # registration ORDER is well defined with duplicate names too: the anchor is the first rule of that name
                if kind == "push":
                    want = before_all + [op[1]]
                else:
                    i = before_all.index(op[1]) + (kind == "after")
                    want = before_all[:i] + [op[2]] + before_all[i:]
                if after_all != want:
                    res.fail("SET_SEMANTICS", f"op {k} {op}: all rules {before_all} -> {after_all}, expected {want} "
                                              f"(anchor = first rule named {op[1]!r})", last_mut)
            elif kind in ("before", "after") and raised is not None and op[1] in before_all:
                res.fail("UNEXPECTED_EXCEPTION", f"op {k} {op}: raised {type(raised).__name__}: {raised}", last_mut)
            elif kind in ("enable", "disable", "enableOnly", "at") and after_all != before_all:
                res.fail("SET_SEMANTICS", f"op {k} {op}: changed the rule list {before_all} -> {after_all}", last_mut)
            continue

        m_before = copy.deepcopy(model.recs)
        exp_raise = False
        if kind == "push":
            model.recs.append({"name": op[1], "on": True, "alt": list(op[3] or []), "fid": op[2],
                               "alts": [list(op[3] or [])]})
        elif kind in ("before", "after"):
            i = model.find(op[1])
            if i < 0:
                exp_raise = True
            else:
                model.recs.insert(i + (kind == "after"), {"name": op[2], "on": True, "alt": list(op[4] or []),
                                                          "fid": op[3], "alts": [list(op[4] or [])]})
        elif kind == "at":
            i = model.find(op[1])
            if i < 0:
                exp_raise = True
            else:
                if op[3] is not None and list(op[3]) != model.recs[i]["alt"]:
                    res.count("at_changed_alt")
                old = list(model.recs[i]["alt"])
                model.recs[i]["alt"] = list(op[3] or [])
                model.recs[i]["fid"] = op[2]
                # options omitted: an empty alt or the old one kept are both accepted
                model.recs[i]["alts"] = [list(op[3] or [])] + ([old] if (op[3] is None and old) else [])
                if shared and fid_of(fns[op[2]]) is not None:
                    res.count("same_function_registered_under_two_names")
        else:
            found, exp_raise = model.set_many(op[1], kind != "disable", op[2], only=(kind == "enableOnly"))
            if not exp_raise and ret is not None and set(ret) != set(found):
                res.fail("SET_SEMANTICS", f"op {k} {op}: returned {ret}, model found {found}", last_mut)

        if exp_raise and raised is None:
            res.fail("MISSING_EXCEPTION", f"op {k} {op}: unknown name accepted silently", last_mut)
        elif not exp_raise and raised is not None:
            res.fail("UNEXPECTED_EXCEPTION", f"op {k} {op}: raised {type(raised).__name__}: {raised}", last_mut)
        elif exp_raise:
            # a failed call may be atomic (nothing changed) or applied up to the unknown name
            partial = (model.all(), model.active())
            atomic = ([r["name"] for r in m_before], [r["name"] for r in m_before if r["on"]])
            if (after_all, after_active) == atomic:
                model.recs = m_before
            elif (after_all, after_active) == partial:
                pass
            else:
                res.fail("SET_SEMANTICS", f"op {k} {op} raised and left all={after_all} active={after_active}; "
                                          f"accepted: unchanged {atomic} or prefix-applied {partial}", last_mut)
        elif observed:
            if (after_all, after_active) != (model.all(), model.active()):
                res.fail("SET_SEMANTICS", f"op {k} {op}: reported all={after_all} active={after_active}, "
                                          f"model all={model.all()} active={model.active()}", last_mut)
        if model.has_dups():
            dup_mode = True

    # final sweep over every chain
    if not res.violation:
        for c in CHAINS:
            coherence(c, len(rec["ops"]))
            if res.violation:
                break


# =========================================================================== (b) facade
PLUGIN_DOCS = ["para\n@@\nmore\n", "> q\n@@\ntail\n", "- a\n@@\n- b\n", "[foo]: /u\n@@\n\n[foo]\n", "x @ y @@ z\n",
               "| a |\n|---|\n@@\n", "text\n\n@@\n\n    code\n"]
BLOCK_ALT = ["paragraph", "reference", "blockquote", "list"]
RULERS = ["core", "block", "inline", "inline2"]


def _ruler(md, which):
    return md.inline.ruler2 if which == "inline2" else md[which].ruler


def _mk_plugin(which: str, tag: str):
    if which == "block":
        def rule(state, startLine, endLine, silent):
            pos = state.bMarks[startLine] + state.tShift[startLine]
            if state.src[pos:pos + 2] != "@@" or state.is_code_block(startLine):
                return False
            if silent:
                return True
            tok = state.push("html_block", "", 0)
            tok.content = f"<!--{tag}-->\n"
            tok.map = [startLine, startLine + 1]
            state.line = startLine + 1
            return True
    elif which == "inline":
        def rule(state, silent):
            if state.src[state.pos] != "@":
                return False
            if not silent:
                tok = state.push("text", "", 0)
                tok.content = f"<{tag}>"
            state.pos += 1
            return True
    elif which == "core":
        def rule(state):
            from markdown_it.token import Token
            t = Token("html_block", "", 0)
            t.content = f"<!--core:{tag}-->\n"
            state.tokens.append(t)
    else:
        def rule(state):
            state.env.setdefault("i2", []).append(tag)
    return rule


def _wrap(fn, which, name, log: set, tag: str = ""):
    lname = name + tag
    if which == "block":
        def w(state, startLine, endLine, silent):
            log.add((which, lname, bool(silent)))
            return fn(state, startLine, endLine, silent)
    elif which == "inline":
        def w(state, silent):
            log.add((which, lname, bool(silent)))
            return fn(state, silent)
    else:
        def w(state):
            log.add((which, lname, False))
            return fn(state)
    w.rule_name = name
    w.which = which
    w.inner = fn
    return w


def _builtin_alts(which: str) -> dict[str, list[str]]:
    """Chain membership of the built-in rules, derived through the public API of a fresh instance."""
    from markdown_it import MarkdownIt
    md = MarkdownIt("js-default")
    r = _ruler(md, which)
    names = r.get_all_rules()
    fns = r.getRules("")
    assert len(names) == len(fns)
    out = {}
    for nm, f in zip(names, fns):
        out[nm] = [c for c in BLOCK_ALT if any(g is f for g in r.getRules(c))]
    return out


_ALTS_CACHE: dict | None = None


def builtin_alts():
    global _ALTS_CACHE
    if _ALTS_CACHE is None:
        _ALTS_CACHE = {w: _builtin_alts(w) for w in RULERS}
    return _ALTS_CACHE


def instrument(md, log: set):
    """Re-register every built-in rule through Ruler.at with a recording pass-through wrapper."""
    alts = builtin_alts()
    for which in RULERS:
        r = _ruler(md, which)
        active = r.get_active_rules()
        names = r.get_all_rules()
        r.enableOnly(names)
        fns = list(r.getRules(""))
        for nm, f in zip(names, fns):
            w = _wrap(f, which, nm, log)
            w.alt_decl = list(alts[which][nm])
            r.at(nm, w, {"alt": list(alts[which][nm])})
            md.__dict__.setdefault("_verif_registry", {})[(which, nm)] = w
        r.enableOnly(active)


def _do_replace(md, op, log: set):
    """Ruler.at on a rule of the instance: a new recording wrapper (tagged) around the original function; the
    terminator-chain membership is kept ("same") or replaced by the given list."""
    _, which, name, tag, alt = op
    r = _ruler(md, which)
    if name not in r.get_all_rules():
        r.at(name, _noop_rule(which))     # raises KeyError (unknown name)
        return
    # find the currently registered function without touching the cache state: a scratch twin ruler is not available,
    # so the harness keeps its own registry on the instance
    reg = md.__dict__.setdefault("_verif_registry", {})
    cur = reg.get((which, name))
    inner = cur.inner if cur is not None else None
    declared = list(cur.alt_decl) if cur is not None else []
    new_alt = declared if (alt is None or alt == "same") else list(alt)
    if tag == "=same-fn" and cur is not None:
        w = cur          # the SAME function object again, only the chain membership changes
    else:
        w = _wrap(inner, which, name, log, tag)
    w.alt_decl = new_alt
    if which == "block":
        r.at(name, w, {"alt": list(new_alt)})
    else:
        r.at(name, w)
    reg[(which, name)] = w


def _noop_rule(which):
    if which == "block":
        return lambda state, startLine, endLine, silent: False
    if which == "inline":
        return lambda state, silent: False
    return lambda state: None


def _bad_preset(rng: random.Random) -> dict:
    from markdown_it import presets
    p = copy.deepcopy(rng.choice([presets.commonmark.make(), presets.zero.make()]))
    comp = rng.choice(["core", "block", "inline"])
    key = "rules2" if (comp == "inline" and rng.random() < 0.3) else "rules"
    lst = p["components"][comp][key]
    lst.insert(rng.randint(0, len(lst)), "nope")
    p["options"]["linkify"] = False
    return p


def _odd_preset(rng: random.Random) -> dict:
    """A hand-written but valid preset: components may lack 'rules' or 'rules2', or list only some of the rules."""
    from markdown_it import presets
    p = copy.deepcopy(rng.choice([presets.commonmark.make(), presets.zero.make(), presets.js_default.make()]))
    p["options"]["linkify"] = False
    comps = p.setdefault("components", {})
    full = presets.commonmark.make()["components"]
    for comp in ("core", "block", "inline"):
        c = comps.setdefault(comp, {})
        r = rng.random()
        if r < 0.3:
            c.pop("rules", None)
        elif r < 0.45:
            c["rules"] = []
        elif r < 0.7:
            c["rules"] = list(full[comp]["rules"])
    c = comps["inline"]
    r = rng.random()
    if r < 0.3:
        c.pop("rules2", None)
    elif r < 0.75:
        keep = ["balance_pairs", "fragments_join"] + rng.sample(["emphasis", "strikethrough"], rng.randint(0, 2))
        c["rules2"] = [x for x in ["balance_pairs", "strikethrough", "emphasis", "fragments_join"] if x in keep]
    for comp in ("core", "block", "inline"):
        if not comps[comp]:
            comps[comp] = {"rules": list(full[comp]["rules"])}      # an empty component dict is not a useful shape
    return p


def gen_facade(rng: random.Random) -> dict:
    cfg = docgen.config(rng)
    n = rng.choice([2, 4, 6, 9, 14])
    p_unknown = rng.choice([0.0, 0.2, 0.4])
    ops: list = []
    pid = 0
    allnames = {"core": ["normalize", "block", "inline", "linkify", "replacements", "smartquotes", "text_join"],
                "block": ["table", "code", "fence", "blockquote", "hr", "list", "reference", "html_block", "heading",
                          "lheading", "paragraph"],
                "inline": ["text", "linkify", "newline", "escape", "backticks", "strikethrough", "emphasis", "link",
                           "image", "autolink", "html_inline", "entity"],
                "inline2": ["balance_pairs", "strikethrough", "emphasis", "fragments_join"]}
    keep = {"normalize", "block", "inline", "text_join", "paragraph", "text", "linkify"}
    optional = {w: [x for x in v if x not in keep] for w, v in allnames.items()}
    flat = sorted({x for v in optional.values() for x in v})

    def some_names(pool):
        k = rng.randint(0, 3)
        names = [rng.choice(pool) for _ in range(k)] if pool else []
        if rng.random() < p_unknown:
            names.insert(rng.randint(0, len(names)), rng.choice(["nope", "zz"]))
        return names

    def one(depth=0):
        nonlocal pid
        r = rng.random()
        if r < 0.22:
            return ["parse", rng.choice(PLUGIN_DOCS) if rng.random() < 0.3 else docgen.document(rng, 2)]
        if r < 0.32:
            return ["check", rng.choice(RULERS), rng.choice([""] + BLOCK_ALT + ["nochain"])]
        if r < 0.50:
            names = some_names(flat)
            form = rng.choice(["list", "list", "str", "tuple"]) if names else "list"
            return [rng.choice(["md.enable", "md.disable"]), names if form != "str" else names[:1], rng.random() < 0.3, form]
        if r < 0.68:
            which = rng.choice(RULERS)
            kind = rng.choice(["enable", "disable", "enableOnly"])
            names = some_names(optional[which])
            if kind == "enableOnly":
                names = names + [x for x in allnames[which] if x in keep and x != "linkify"]
                rng.shuffle(names)
            return ["ruler", which, kind, names, rng.random() < 0.3]
        if r < 0.80:
            which = rng.choice(RULERS)
            kind = rng.choice(["push", "before", "after"])
            ref = rng.choice(allnames[which]) if rng.random() > p_unknown * 0.5 else "nope"
            alt = rng.sample(BLOCK_ALT, rng.randint(0, 3)) if which == "block" else []
            pid += 1
            return ["plugin", which, kind, ref, f"plug{pid}", alt]
        if r < 0.84:
            which = rng.choice(RULERS)
            pid += 1
            name = rng.choice(allnames[which]) if rng.random() > p_unknown * 0.5 else "nope"
            alt = None
            if which == "block":
                alt = rng.choice(["same", "same", rng.sample(BLOCK_ALT, rng.randint(0, 3))])
                if alt != "same" and rng.random() < 0.5:
                    return ["replace", which, name, "=same-fn", alt]
            return ["replace", which, name, f"#v{pid}", alt]
        if r < 0.90:
            if rng.random() < 0.35:
                return ["configure", _bad_preset(rng), None]
            if rng.random() < 0.35:
                return ["configure", _odd_preset(rng), {"linkify": False}, "odd"]
            upd = {"linkify": False}
            if rng.random() < 0.5:
                upd[rng.choice(["html", "typographer", "breaks", "xhtmlOut"])] = rng.random() < 0.5
            return ["configure", rng.choice(["commonmark", "zero", "js-default", "gfm-like", "nopreset"]), upd]
        if r < 0.97 and depth < 2:
            return ["reset_rules", [one(depth + 1) for _ in range(rng.randint(0, 3))]]
        return ["parse", docgen.document(rng, 2)]

    for _ in range(n):
        ops.append(one())
    probes = [docgen.document(rng, 3), rng.choice(PLUGIN_DOCS), rng.choice(PLUGIN_DOCS)]
    return {"kind": "facade", "cfg": cfg, "ops": ops, "probes": probes, "sparse": rng.random() < 0.35,
            "scribble": rng.random() < 0.25}


def _predict_many(allr, active, names, value, ignore, only=False):
    """set semantics on (all, active) with unique names -> (new_active, found, failed)"""
    act = set() if only else set(active)
    found = []
    for nm in names:
        if nm not in allr:
            if ignore:
                continue
            return [x for x in allr if x in act], found, True
        (act.add if value else act.discard)(nm)
        found.append(nm)
    return [x for x in allr if x in act], found, False


def run_facade(rec: dict, res: RunResult) -> None:
    from markdown_it import presets as P

    md = docgen.build(rec["cfg"])
    log: set = set()
    instrument(md, log)
    registrations: list = []     # successful plugin registrations, replayed on the twin
    compiled = False
    last_mut = "none"
    preset_by_name = {"commonmark": P.commonmark.make, "zero": P.zero.make, "js-default": P.js_default.make,
                      "default": P.default.make, "gfm-like": P.gfm_like.make}

    sparse = bool(rec.get("sparse"))
    known: list = [None]      # sparse observation: the state the model predicts while nobody asks the instance

    def reported():
        return md.get_all_rules(), md.get_active_rules()

    def supported():
        # C01's "supported configuration": the fallback and pipeline rules are on (else no progress guarantee)
        act = known[0][1] if (sparse and known[0] is not None) else md.get_active_rules()
        return ({"normalize", "block", "inline", "text_join"} <= set(act["core"]) and "paragraph" in act["block"]
                and "text" in act["inline"])

    def scribble():
        if rec.get("scribble"):
            for d in (md.get_active_rules(), md.get_all_rules()):
                for lst in d.values():
                    lst.clear()
                d.clear()
            res.count("caller_emptied_returned_lists")

    def check(which, chain, k):
        nonlocal compiled
        scribble()
        r = _ruler(md, which)
        main = list(r.getRules(""))
        applied = list(r.getRules(chain))
        compiled = True
        names = [getattr(f, "rule_name", None) for f in main]
        rep = md.get_active_rules()[which]
        res.events.append([k, "check", which, chain, names, [getattr(f, "rule_name", None) for f in applied]])
        if sparse and known[0] is not None and rep != known[0][1][which]:
            res.fail("SET_SEMANTICS", f"op {k}: get_active_rules()[{which!r}] = {rep} but the calls so far give "
                                      f"{known[0][1][which]} (after {last_mut})", last_mut)
            return
        if names != rep:
            res.fail("COHERENCE", f"op {k}: {which} chain applies {names} but get_active_rules() reports {rep} "
                                  f"(after {last_mut})", last_mut)
            return
        if chain == "":
            return
        exp = [f.rule_name for f in main if chain in getattr(f, "alt_decl", [])]
        got = [getattr(f, "rule_name", None) for f in applied]
        if got != exp:
            res.fail("CHAIN_MEMBERSHIP", f"op {k}: {which}.getRules({chain!r}) = {got}, expected {exp}", last_mut)

    def apply(op, k, depth=0):
        nonlocal compiled, last_mut
        if res.violation:
            return
        kind = op[0]
        if kind == "parse":
            if not supported():
                res.count("parse_skipped_fallback_rules_off")
                return
            try:
                md.render(op[1])
            except Exception as e:  # noqa: BLE001
                res.fail("UNEXPECTED_EXCEPTION", f"op {k}: render raised {type(e).__name__}: {e}", last_mut)
            compiled = True
            res.events.append([k, "parse"])
            return
        if kind == "check":
            check(op[1], op[2], k)
            return
        if kind == "reset_rules":
            entry = md.get_active_rules()
            known[0] = (md.get_all_rules(), copy.deepcopy(entry))
            with md.reset_rules():
                for j, sub in enumerate(op[1]):
                    apply(sub, f"{k}.{j}", depth + 1)
            last_mut = "reset_rules:exit"
            known[0] = None
            if not res.violation and md.get_active_rules() != entry:
                res.fail("SET_SEMANTICS", f"op {k}: reset_rules (normal exit) left {md.get_active_rules()} "
                                          f"instead of the rules on entry {entry}", last_mut)
            res.events.append([k, "reset_rules", md.get_active_rules()])
            return
        if compiled:
            res.nontrivial = True
        if sparse and known[0] is not None:
            b_all, b_act = copy.deepcopy(known[0])
        else:
            b_all, b_act = reported()
        raised = None
        exp_all, exp_act, exp_raise = copy.deepcopy(b_all), copy.deepcopy(b_act), False
        unconstrained = False
        try:
            if kind in ("md.enable", "md.disable"):
                _, names, ignore, form = op
                arg = names[0] if (form == "str" and names) else (tuple(names) if form == "tuple" else list(names))
                found_any = set()
                for w in RULERS:
                    exp_act[w], found, _ = _predict_many(b_all[w], b_act[w], names, kind == "md.enable", True)
                    found_any.update(found)
                missed = [n for n in names if n not in found_any]
                if missed:
                    res.count("facade_missed_names")
                exp_raise = bool(missed) and not ignore
                ret = getattr(md, kind[3:])(arg, ignore)
                if ret is not md:
                    res.fail("SET_SEMANTICS", f"op {k}: {kind} is documented chainable but returned {ret!r}", kind)
            elif kind == "ruler":
                _, which, rk, names, ignore = op
                exp_act[which], found, exp_raise = _predict_many(b_all[which], b_act[which], names,
                                                                 rk != "disable", ignore, only=(rk == "enableOnly"))
                ret = getattr(_ruler(md, which), rk)(list(names), ignore)
                if set(ret) != set(found):
                    res.fail("SET_SEMANTICS", f"op {k} {op}: returned {ret}, model found {found}", f"{rk}:ok")
            elif kind == "plugin":
                _, which, pk, ref, pname, alt = op
                fn = _wrap(_mk_plugin(which, pname), which, pname, log)
                fn.alt_decl = list(alt)
                r = _ruler(md, which)
                opts = {"alt": list(alt)} if which == "block" else None
                if pk == "push":
                    exp_all[which] = b_all[which] + [pname]
                    exp_act[which] = b_act[which] + [pname]
                    r.push(pname, fn, opts) if opts else r.push(pname, fn)
                else:
                    if ref not in b_all[which]:
                        exp_raise = True
                    else:
                        i = b_all[which].index(ref) + (pk == "after")
                        exp_all[which] = b_all[which][:i] + [pname] + b_all[which][i:]
                        on = set(b_act[which]) | {pname}
                        exp_act[which] = [x for x in exp_all[which] if x in on]
                    getattr(r, pk)(ref, pname, fn, opts) if opts else getattr(r, pk)(ref, pname, fn)
                registrations.append(op)
                md.__dict__.setdefault("_verif_registry", {})[(which, pname)] = fn
            elif kind == "replace":
                exp_raise = op[2] not in b_all[op[1]]
                _do_replace(md, op, log)
                registrations.append(op)
            elif kind == "configure":
                preset, upd = op[1], op[2]
                if isinstance(preset, str):
                    if preset not in preset_by_name:
                        exp_raise = True
                    else:
                        comp = preset_by_name[preset]()["components"]
                        for w, key in (("core", "rules"), ("block", "rules"), ("inline", "rules"), ("inline2", "rules2")):
                            lst = comp.get("inline" if w == "inline2" else w, {}).get(key)
                            if lst:
                                exp_act[w], _, bad = _predict_many(b_all[w], b_act[w], lst, True, False, only=True)
                                exp_raise = exp_raise or bad
                    if exp_raise and preset in preset_by_name:
                        unconstrained = True
                elif len(op) > 3 and op[3] == "odd":
                    # hand-written, valid: enableOnly per listed non-empty key, nothing else touched
                    comp = preset.get("components", {})
                    for w, key in (("core", "rules"), ("block", "rules"), ("inline", "rules"), ("inline2", "rules2")):
                        lst = comp.get("inline" if w == "inline2" else w, {}).get(key)
                        if lst:
                            exp_act[w], _, bad = _predict_many(b_all[w], b_act[w], lst, True, False, only=True)
                            exp_raise = exp_raise or bad
                    unconstrained = exp_raise
                    res.count("configure_with_hand_written_preset")
                else:
                    exp_raise = True
                    unconstrained = True   # fails half-way through the components: any coherent state
                    res.count("configure_failed_midway")
                md.configure(copy.deepcopy(preset) if not isinstance(preset, str) else preset,
                             options_update=dict(upd) if upd else None)
        except Exception as e:  # noqa: BLE001
            raised = e
        last_mut = f"{kind if kind != 'ruler' else op[2]}:{'raised' if raised else 'ok'}"
        if sparse and raised is None and not exp_raise and not unconstrained:
            # nobody asks: the prediction is carried to the next observation ('check' op, failed call, end of history)
            known[0] = (exp_all, exp_act)
            res.count("steps_without_observation")
            res.events.append([k, kind, "ok", None])
            res.steps += 1
            compiled = False
            return
        a_all, a_act = reported()
        known[0] = (a_all, a_act)
        res.events.append([k, kind, type(raised).__name__ if raised else "ok", a_act])
        res.steps += 1
        if raised is not None:
            res.count("failed_calls")
            if compiled:
                res.count("failed_call_after_compiled_cache")
            if kind == "ruler" and op[2] == "enableOnly":
                res.count("enableOnly_failed_midway")
        compiled = False
        if exp_raise and raised is None:
            res.fail("MISSING_EXCEPTION", f"op {k} {str(op)[:200]}: unknown name/preset accepted silently", last_mut)
        elif not exp_raise and raised is not None:
            res.fail("UNEXPECTED_EXCEPTION", f"op {k} {str(op)[:200]}: raised {type(raised).__name__}: {raised}", last_mut)
        elif unconstrained:
            if a_all != b_all:
                res.fail("SET_SEMANTICS", f"op {k}: failed configure changed the rule lists", last_mut)
        elif exp_raise:
            if (a_all, a_act) not in ((b_all, b_act), (exp_all, exp_act)):
                res.fail("SET_SEMANTICS", f"op {k} {str(op)[:200]} raised and left active={a_act}; accepted: "
                                          f"unchanged {b_act} or applied-up-to-the-failure {exp_act}", last_mut)
        else:
            if (a_all, a_act) != (exp_all, exp_act):
                res.fail("SET_SEMANTICS", f"op {k} {str(op)[:200]}: reported all={a_all} active={a_act}; "
                                          f"model all={exp_all} active={exp_act}", last_mut)

    for k, op in enumerate(rec["ops"]):
        apply(op, k)
        if res.violation:
            return

    # ---- applied when parsing: a twin that is told the reported rules must behave identically
    for which in RULERS:
        check(which, "", "final")
        if res.violation:
            return
    rep_all, rep_act = reported()
    if sparse and known[0] is not None and (rep_all, rep_act) != tuple(known[0]):
        res.fail("SET_SEMANTICS", f"end of history: reported all/active {rep_act} differ from what the calls so far give "
                                  f"{known[0][1]} (after {last_mut})", last_mut)
        return
    known[0] = None
    if not supported():
        res.count("probes_skipped_fallback_rules_off")
        return
    twin = docgen.build(rec["cfg"])
    tlog: set = set()
    instrument(twin, tlog)
    for op in registrations:
        if op[0] == "replace":
            try:
                _do_replace(twin, op, tlog)
            except KeyError:
                pass
            continue
        _, which, pk, ref, pname, alt = op
        fn = _wrap(_mk_plugin(which, pname), which, pname, tlog)
        fn.alt_decl = list(alt)
        r = _ruler(twin, which)
        opts = {"alt": list(alt)} if which == "block" else None
        try:
            if pk == "push":
                r.push(pname, fn, opts) if opts else r.push(pname, fn)
            else:
                getattr(r, pk)(ref, pname, fn, opts) if opts else getattr(r, pk)(ref, pname, fn)
            twin.__dict__.setdefault("_verif_registry", {})[(which, pname)] = fn
        except KeyError:
            pass
    twin.set(dict(md.options))
    if twin.get_all_rules() != rep_all:
        res.fail("SET_SEMANTICS", f"twin with the same registrations has rules {twin.get_all_rules()} "
                                  f"but the instance reports {rep_all}", last_mut)
        return
    for which in RULERS:
        _ruler(twin, which).enableOnly(rep_act[which])
    active_set = {(w, n) for w in RULERS for n in rep_act[w]}
    for d in rec["probes"]:
        log.clear()
        tlog.clear()
        out = _safe_render(md, d)
        tout = _safe_render(twin, d)
        res.events.append(["probe", out, sorted(log)])
        bad = sorted(x for x in log if (x[0], x[1].split("#")[0]) not in active_set)
        if bad:
            res.fail("UNREPORTED_RULE_INVOKED", f"parsing invoked rules not reported active: {bad[:5]} "
                                                f"(after {last_mut})", last_mut)
            return
        if out != tout or log != tlog:
            res.fail("APPLIED_DIFF",
                     f"after the history the instance reports {rep_act} but does not parse like a fresh instance "
                     f"given exactly those rules: doc={d!r} got={out!r} twin={tout!r} "
                     f"invoked-only-here={sorted(log - tlog)[:5]} invoked-only-twin={sorted(tlog - log)[:5]}", last_mut)
            return


def _safe_render(md, d):
    try:
        return md.render(d)
    except Exception as e:  # noqa: BLE001
        return f"EXC {type(e).__name__}: {e}"


# =========================================================================== engine
class C11(Engine):
    prop = "C11"
    level = "exploration"
    rule = ("seeded histories of rule-management calls: (a) 3-25 Ruler ops (push/before/after/at/enable/enableOnly/"
            "disable/getRules) over names {a,b,c,d,zz,nope} and chains {'',p,q,nochain}, duplicate names, one function under "
            "several names, repeated/default chain in alt, reporting calls dense or sparse; (b) 2-14 facade ops "
            "(MarkdownIt.enable/disable/configure/reset_rules, direct ruler calls, plugin registrations, parses) then "
            "probe parses against a twin. Non-trivial = a mutator ran after a read/parse had compiled the chain cache; "
            "distinct = distinct event-log digests among those.")
    assumptions = ["with duplicate rule names only coherence (applied == reported) is checked; set semantics are "
                   "ambiguous there", "a failed multi-name call may be atomic or applied up to the unknown name",
                   "one-shot iterators are passed to Ruler methods only, not to the MarkdownIt facade"]
    components = {"real": ["markdown_it.ruler.Ruler", "markdown_it.main.MarkdownIt", "parsers, rules, renderer, presets"],
                  "harness_supplied": ["synthetic rule functions", "pass-through recording wrappers around built-in rules",
                                       "marker plugins (@@ block, @ inline, core, inline2)"],
                  "stub": [], "simulated": ["the history of calls incl. the calls that raise half-way"]}
    expected_probes = ["configure_with_hand_written_preset", "caller_emptied_returned_lists", "steps_without_observation", "same_function_registered_under_two_names",
                       "failed_call_after_compiled_cache", "enableOnly_failed_midway", "duplicate_name_ops",
                       "at_changed_alt", "configure_failed_midway", "facade_missed_names"]

    def budget(self, tier):
        if tier == "quick":
            return {"runs": 120_000, "wall_s": 100, "selftest_samples": 32}
        return {"runs": 4_000_000, "wall_s": 1500, "selftest_samples": 64}

    def warmup(self):
        builtin_alts()
        from markdown_it import MarkdownIt
        MarkdownIt("js-default").enable(["replacements", "smartquotes"]).render(
            "# a\n\n*b* `c` [d](/e) ![f](/g) <h> &amp; \\* \"q\" --\n\n> - x\n\n| a |\n|---|\n| b |\n\n[r]: /u\n")

    def gen(self, rng, i, tier):
        if rng.random() < 0.8:
            return gen_ruler(rng)
        return gen_facade(rng)

    def execute(self, rec):
        res = RunResult()
        if rec["kind"] == "ruler":
            run_ruler(rec, res)
        else:
            run_facade(rec, res)
        return res

    def shrink_steps(self, rec):
        ops = rec["ops"]
        # drop single ops / halves (ops stay valid under deletion)
        n = len(ops)
        if n > 1:
            for size in (n // 2, n // 4, 1):
                if size < 1:
                    continue
                for s in range(0, n, size):
                    cand = ops[:s] + ops[s + size:]
                    if len(cand) < n:
                        yield {**rec, "ops": cand}
        if rec["kind"] == "facade":
            if len(rec["probes"]) > 1:
                for j in range(len(rec["probes"])):
                    yield {**rec, "probes": rec["probes"][:j] + rec["probes"][j + 1:]}
            for j, d in enumerate(rec["probes"]):
                for simple in docgen.LADDER + PLUGIN_DOCS:
                    if len(simple) < len(d):
                        yield {**rec, "probes": rec["probes"][:j] + [simple] + rec["probes"][j + 1:]}
            base = {"preset": "commonmark", "options": {"linkify": False}, "enable": [], "disable": []}
            if rec["cfg"] != base:
                yield {**rec, "cfg": base}
            for j, op in enumerate(ops):
                if op[0] == "parse" and len(op[1]) > 3:
                    yield {**rec, "ops": ops[:j] + [["parse", "a\n"]] + ops[j + 1:]}
                if op[0] == "reset_rules" and op[1]:
                    yield {**rec, "ops": ops[:j] + op[1] + ops[j + 1:]}
        else:
            for j, op in enumerate(ops):
                if op[0] in ("enable", "disable", "enableOnly") and len(op[1]) > 1:
                    for t in range(len(op[1])):
                        yield {**rec, "ops": ops[:j] + [[op[0], op[1][:t] + op[1][t + 1:], op[2],
                                                          "list" if op[3] == "str" else op[3]]] + ops[j + 1:]}


ENGINE = C11()
