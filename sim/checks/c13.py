"""C13 - concurrent or nested parses on a shared instance do not interfere.

Engine `sched-threads` (DESIGN.md sections 3 and 4): real caller threads on one MarkdownIt instance,
pre-empted between library lines / bytecodes by the seeded scheduler in sim/sched.py; plus re-entrant
(nested) calls from inside plugin rules and render rules.  Oracle: every call's solo outcome.
"""

from __future__ import annotations

import collections
import random
import threading

from ..core import Engine, RunResult, HarnessError
from .. import docgen, sched, shared_state
from .c11 import RULERS, BLOCK_ALT, _ruler

METHODS = ["render", "render", "parse", "renderInline", "parseInline"]
WARM_DOC = "# w\n\n*a* [b](/c) `d` ![e](/f)\n\n> - g\n\n```x\nh\n```\n\n[r]: /u\n"
BASE_CFG = {"preset": "commonmark", "options": {"linkify": False}, "enable": [], "disable": []}
RENDER_KEYS = ["text", "code_inline", "softbreak", "fence", "image", "paragraph_open", "em_open", "link_open",
               "list_item_open"]
REF_NAMES = {"core": ["normalize", "block", "inline", "text_join"],
             "block": ["code", "fence", "blockquote", "hr", "list", "reference", "heading", "lheading", "paragraph"],
             "inline": ["text", "newline", "escape", "backticks", "emphasis", "link", "image", "entity"],
             "inline2": ["balance_pairs", "emphasis", "fragments_join"]}


# --------------------------------------------------------------------------- aged instances
def age_doc(i: int) -> str:
    """The i-th document an 'aged' instance has processed before the concurrent phase.  Document 0 touches every item of
    the generator's pools (so that later calls re-use what any memo may hold); the others are all-new content."""
    if i == 0:
        out = [" ".join(f"[w{k}]({u})" for k, u in enumerate(docgen.URLS)),
               " ".join(f"[{lab}] ![i][{lab}]" for lab in docgen.LABELS),
               " ".join(docgen.ENTITIES + docgen.AUTOLINKS + docgen.HTML_INLINE + docgen.TYPO),
               " ".join(docgen.WORDS) + " `code` ``a`b`` *e* **s** ~~d~~",
               "\n".join(f"[{lab}]: /pool/{k} 't'" for k, lab in enumerate(docgen.LABELS))]
        return "\n\n".join(out) + "\n"
    return (f"# h{i}\n\n[a{i}](/age/{i} 't{i}') ![b{i}][l{i}] `c{i}` *e{i}* &#{200 + i}; <http://h{i}.x/p> [l{i}] w{i}\n\n"
            f"> - q{i}\n\n```lang{i}\nx{i}\n```\n\n[l{i}]: /r/{i} 'rt{i}'\n")


def _age(md, n: int) -> None:
    mode = sched._mode
    sched.set_mode(None)          # ageing is not traced: no monitoring callbacks while it runs
    try:
        for i in range(n):
            md.render(age_doc(i))
    finally:
        sched.set_mode(mode)


_BOUNDARIES: list[int] | None = None
GENERIC_AGES = [17, 17, 17, 33, 33, 64, 65, 100, 128, 129, 200]
DISCOVERY_MAX = 1100


def boundaries() -> list[int]:
    """Ages (number of processed documents) at which some sized shared object SHRANK: the capacity limits of bounded
    memos, found by watching the instance and the library's module state while ageing - nothing is looked up by name.
    Empty on a tree that keeps no bounded store (the pinned tree).  Once per process; deterministic."""
    global _BOUNDARIES
    if _BOUNDARIES is not None:
        return _BOUNDARIES
    mode = sched._mode
    sched.set_mode(None)
    try:
        found: list[int] = []
        md = docgen.build(BASE_CFG)
        prev = shared_state.fingerprint(md)
        prev_i = 0
        i = 0
        while i < DISCOVERY_MAX and len(found) < 2:
            md.render(age_doc(i))
            i += 1
            if i <= 300 or i % 8 == 0:
                cur = shared_state.fingerprint(md)
                if shared_state.shrunk(prev, cur):
                    b = i
                    if i - prev_i > 1:      # refine inside (prev_i, i] on a second instance
                        md2 = docgen.build(BASE_CFG)
                        for j in range(prev_i):
                            md2.render(age_doc(j))
                        p2 = shared_state.fingerprint(md2)
                        for j in range(prev_i, i):
                            md2.render(age_doc(j))
                            c2 = shared_state.fingerprint(md2)
                            if shared_state.shrunk(p2, c2):
                                b = j + 1
                                break
                            p2 = c2
                    found.append(b)
                prev, prev_i = cur, i
        _BOUNDARIES = found
    finally:
        sched.set_mode(mode)
    return _BOUNDARIES


def resolve_age(spec) -> int:
    if isinstance(spec, int):
        return spec
    bs = boundaries()
    x = spec["pick"]
    if bs and x < 0.8:
        # just below a capacity limit, so that new items arriving during the concurrent phase cross it
        b = bs[0] if (len(bs) == 1 or x < 0.6) else bs[1]
        return max(1, b - 1 - int(spec["back"]))
    return GENERIC_AGES[min(int(x * len(GENERIC_AGES)), len(GENERIC_AGES) - 1)]


class _Ctx(threading.local):
    cur = None      # the armed re-entry of the call this thread is executing (or None)


_ctx = _Ctx()


class _Arm:
    __slots__ = ("at", "count", "fired", "inner", "method", "doc", "rep", "gap", "inners", "busy")

    def __init__(self, at, method, doc, rep=1, gap=1):
        self.at, self.count, self.fired, self.inner = at, 0, False, None
        self.method, self.doc = method, doc
        self.rep, self.gap, self.inners, self.busy = rep, gap, [], False


# --------------------------------------------------------------------------- instance construction
def _reenter(md):
    a = _ctx.cur
    if a is None:
        return
    if a.busy:
        return          # invocations made by the re-entrant call itself are not counted
    a.count += 1
    if a.at is not None and a.count >= a.at and (a.count - a.at) % a.gap == 0 and len(a.inners) < a.rep:
        a.fired = True
        a.busy = True
        try:
            out = call_outcome(md, a.method, a.doc, "dict")
        finally:
            a.busy = False
        a.inners.append(out)
        a.inner = out


def install_nested(md, where):
    """A pass-through user callback that may re-enter the parser (armed per call through _ctx)."""
    if where[0] == "rule":
        _, which, kind, ref = where
        if which == "block":
            def rule(state, startLine, endLine, silent):
                _reenter(state.md)
                return False
        elif which == "inline":
            def rule(state, silent):
                _reenter(state.md)
                return False
        else:
            def rule(state):
                _reenter(state.md)
        r = _ruler(md, which)
        opts = {"alt": list(BLOCK_ALT)} if which == "block" else None
        if kind == "push":
            r.push("verif_nested", rule, opts) if opts else r.push("verif_nested", rule)
        else:
            getattr(r, kind)(ref, "verif_nested", rule, opts) if opts else getattr(r, kind)(ref, "verif_nested", rule)
    elif where[0] == "highlight":
        def hl(content, lang, attrs):
            _reenter(md)
            return ""
        md.options["highlight"] = hl
    elif where[0] == "hook":
        # the overridable link hooks (md.normalizeLink / validateLink / normalizeLinkText) are user code too
        orig = getattr(md, where[1])

        def hook(url, _orig=orig):
            _reenter(md)
            return _orig(url)
        try:
            setattr(md, where[1], hook)
        except (AttributeError, TypeError):
            pass      # not assignable on this tree: no re-entry site (the callback count stays 0)
    else:
        key = where[1]
        orig = md.renderer.rules.get(key)

        def rr(self_, tokens, idx, options, env):
            _reenter(md)
            if orig is None:
                return self_.renderToken(tokens, idx, options, env)
            return orig(tokens, idx, options, env)
        md.add_render_rule(key, rr)


def _plain_hl(content, lang, attrs):
    return f"<pre class=hl>{lang}|{attrs}|{len(content)}</pre>" if lang else ""


def build_shared(rec):
    md = docgen.build(rec["cfg"])
    if rec.get("hl"):
        md.options["highlight"] = _plain_hl
    if rec.get("nested"):
        install_nested(md, rec["nested"]["where"])
    st = rec["start"]
    if st[0] == "aged":
        _age(md, st[1])
    if st[0] in ("warm", "reconfigured", "options"):
        md.render(WARM_DOC)
    if st[0] == "reconfigured":
        for kind, names in st[1]:
            getattr(md, kind)(list(names))
    elif st[0] == "options":
        for k, v in st[1]:
            md.options[k] = v
    return md


def _mk_env(kind):
    if kind == "none":
        return None
    if kind == "userdict":
        return collections.UserDict()
    return {}


def call_outcome(md, method, doc, envkind):
    env = _mk_env(envkind)
    try:
        v = getattr(md, method)(doc, env) if env is not None else getattr(md, method)(doc)
    except sched.StepBudgetExceeded:
        return ["nonterm"]
    except sched.SimDeadlock as e:
        return ["deadlock", str(e)]
    except BaseException as e:  # noqa: BLE001
        return ["exc", type(e).__name__, str(e)[:200]]
    if method in ("parse", "parseInline"):
        v = [t.as_dict() for t in v]
    return ["ok", v, None if env is None else {str(k): x for k, x in dict(env).items()}]


# --------------------------------------------------------------------------- generation
def _gen_start(rng):
    r = rng.random()
    if r < 0.5:
        return ["fresh"]
    if r < 0.6:
        return ["warm"]
    if r < 0.7:
        return ["aged", {"pick": rng.random(), "back": rng.choice([0, 0, 1, 2, 3])}]
    if r < 0.9:
        pool = ["emphasis", "link", "list", "blockquote", "table", "strikethrough", "backticks", "heading",
                "replacements", "smartquotes", "html_inline", "image"]
        return ["reconfigured", [[rng.choice(["enable", "disable"]), rng.sample(pool, rng.randint(1, 3))]
                                 for _ in range(rng.randint(1, 2))]]
    return ["options", [[rng.choice(["breaks", "xhtmlOut", "typographer", "html"]), rng.random() < 0.5]]]


def _gen_call(rng, small):
    m = rng.choice(METHODS)
    if "Inline" in m:
        d = docgen.inline_source(rng)
    else:
        d = docgen.document(rng, 1 if small else rng.choice([1, 2, 3]))
    return [m, d, rng.choice(["none", "dict", "dict", "userdict"])]


def _aged_fragments(rng, call):
    """For aged starts: content the instance has seen before (hits of whatever it remembers) and all-new content
    (misses that make a bounded store evict)."""
    m = call[0]
    frag = ""
    if rng.random() < 0.6:
        k = rng.randint(1, 15)
        frag += f" [a{k}](/age/{k} 't{k}') `c{k}` [l{k}] <http://h{k}.x/p>"
    if rng.random() < 0.6:
        k = rng.randrange(10 ** 6)
        frag += f" [n](/nov/{k} 'nt{k}') `nc{k}` <http://nov{k}.x/> &#{300 + k % 500};"
    if not frag:
        return
    if "Inline" in m:
        call[1] = call[1] + frag
    else:
        call[1] = call[1] + "\n\n" + frag.strip() + "\n\n" + "\n".join(f"[l{k}]: /r/{k} 'rt{k}'" for k in range(1, 16, 5)) + "\n"


def _gen_nested(rng, threads):
    r = rng.random()
    if r < 0.65:
        which = rng.choice(RULERS)
        where = ["rule", which, rng.choice(["push", "before", "after", "before"]), rng.choice(REF_NAMES[which])]
    elif r < 0.84:
        where = ["render", rng.choice(RENDER_KEYS)]
    elif r < 0.92:
        where = ["hook", rng.choice(["normalizeLink", "validateLink", "normalizeLink", "normalizeLinkText"])]
    else:
        where = ["highlight"]
    t = rng.randrange(len(threads))
    c = rng.randrange(len(threads[t]))
    if where[0] in ("render", "highlight") and threads[t][c][0] in ("parse", "parseInline"):
        threads[t][c][0] = "render" if threads[t][c][0] == "parse" else "renderInline"
    if where[0] == "hook":
        inl = "Inline" in threads[t][c][0]
        threads[t][c][1] = threads[t][c][1] + (" [h](/hk 't') <http://h.k/x>" if inl else
                                               "\n\n[h](/hk 't') ![i](/im) <http://h.k/x> [r]\n\n[r]: /rf\n")
    if where[0] == "highlight":
        threads[t][c][0] = "render"
        threads[t][c][1] = threads[t][c][1] + rng.choice(["\n```py x\ncode\n```\n", "\n> ~~~\n> q\n> ~~~\n"])
    m = rng.choice(["render", "render", "parse", "renderInline", "parseInline"])
    d = docgen.inline_source(rng) if "Inline" in m else docgen.document(rng, 2)
    return {"where": where, "inv": {"frac": rng.random() ** rng.choice([1, 2, 3])}, "method": m, "doc": d,
            "thread": t, "call": c, "rep": rng.choice([1, 1, 2, 3]), "gap": rng.choice([1, 1, 2, 5])}


def gen_sweep(rng: random.Random, tier: str) -> dict:
    """One pair of small calls, EVERY single-pre-emption schedule of thread 0's first-use and write windows (all of
    them in the thorough tier, capped in the quick tier) plus evenly spaced positions elsewhere."""
    cfg = docgen.config(rng) if rng.random() < 0.5 else dict(BASE_CFG)
    instr = rng.random() < 0.5
    threads = [[_gen_call(rng, True)], [_gen_call(rng, True)]]
    start = _gen_start(rng)
    if start[0] == "aged":
        start = ["fresh"]
    return {"cfg": cfg, "start": start, "threads": threads, "nested": None,
            "gran": "INSTRUCTION" if instr else "LINE", "switches": [], "sched": "SWEEP",
            "cold_text_cache": rng.random() < 0.3,
            "sweep": {"cap": 120 if tier == "quick" else 6000, "extra": 40 if tier == "quick" else 200}}


def gen(rng: random.Random, tier: str) -> dict:
    if rng.random() < (0.004 if tier == "quick" else 0.001):
        return gen_sweep(rng, tier)
    cfg = docgen.config(rng) if rng.random() < 0.6 else dict(BASE_CFG)
    nt = 1 if rng.random() < 0.12 else (2 if (tier == "quick" or rng.random() < 0.6) else 3)
    instr = rng.random() < (0.25 if tier == "quick" else 0.5)
    start = _gen_start(rng)
    if start[0] == "aged" and rng.random() < 0.4:
        instr = True        # check-then-act windows of a memo usually sit inside one source line
    small = instr or rng.random() < 0.5
    threads = [[_gen_call(rng, small) for _ in range(1 if rng.random() < 0.75 else 2)] for _ in range(nt)]
    if start[0] == "aged":
        for calls in threads:
            for call in calls:
                _aged_fragments(rng, call)
    if rng.random() < 0.1:
        # the typographic core rules on (they are off in most generated configurations) and something for them to do
        cfg = {"preset": "js-default", "options": {**cfg["options"], "typographer": True, "linkify": False},
               "enable": sorted(set(cfg.get("enable", [])) | {"smartquotes", "replacements"}),
               "disable": [x for x in cfg.get("disable", []) if x not in ("smartquotes", "replacements")]}
        for calls in threads:
            for call in calls:
                call[1] += (" " if "Inline" in call[0] else "\n\n") + " ".join(rng.sample(docgen.TYPO, 2)) + \
                           ("" if "Inline" in call[0] else "\n")
    hl = rng.random() < 0.12
    if hl:
        for calls in threads:
            for call in calls:
                if "Inline" not in call[0] and rng.random() < 0.75:
                    call[0] = "render"
                    call[1] += rng.choice(["\n```py a=1\ncode\n```\n", "\n~~~js\nx\n~~~\n", "\n> ```c\n> q\n> ```\n"])
    rec = {"cfg": cfg, "start": start, "threads": threads, "nested": None, "hl": hl,
           "gran": "INSTRUCTION" if instr else "LINE", "switches": [], "sched": "none",
           "cold_text_cache": rng.random() < 0.15}
    if nt == 1 or rng.random() < 0.4:
        rec["nested"] = _gen_nested(rng, threads)
    if nt > 1:
        k = rng.random()
        used = start[0] in ("aged", "warm", "options")
        if used and rng.random() < 0.5:
            # steady-state writes (memos, spare objects, scratch state) only exist on an instance that has been used:
            # there the write-directed shapes get a larger share
            k = rng.choice([0.1, 0.1, 0.45, 0.45, 0.45])
        if 0.40 <= k < 0.52:
            # K5 "ping-pong around writes": thread 0 is pre-empted at/just before/after one of its own shared-state writes (or
            # inside a writer function); thread 1 then runs until just past one of ITS writes and is parked; thread 0 runs
            # to completion; thread 1 finishes.  Two precisely placed switches - the shape of races in which both parties
            # hold a half-done update (both took the same spare object, both read before either wrote back ...)
            rec["sched"] = "K5"
            q = rng.random()
            if q < 0.55:
                spec = {"ws": rng.random(), "d": rng.choice([-1, -1, 0, 0, 1, 2])}
            elif q < 0.8:
                spec = {"wc": rng.random(), "loc": rng.random() < 0.5}
            else:
                spec = {"fu": rng.random()}
            rec["switches"] = [[spec, 0], [{"tw": rng.random(), "d": rng.choice([0, 1, 3, 8, 20, 50, 120])}, 0]]
        elif k < 0.45:
            rec["sched"] = "K1"
            q = rng.random()
            if q < 0.35:
                spec = {"fu": rng.random()}
            elif q < 0.5:
                # right after (d=0), a little after, or just before a step at which thread 0 WRITES shared state
                spec = {"ws": rng.random(), "d": rng.choice([0, 0, 0, 1, 2, 3, -1])}
            elif q < 0.7:
                # inside a function that some call of this run was seen writing shared state from
                spec = {"wc": rng.random(), "loc": rng.random() < 0.5}
            else:
                spec = {"frac": rng.random(), "of": "t0"}
            if used and rng.random() < 0.5:
                spec = {"wc": rng.random(), "loc": rng.random() < 0.5} if rng.random() < 0.6 else \
                    {"ws": rng.random(), "d": rng.choice([0, 0, 1, 2, -1, -1])}
            if ("ws" in spec or "wc" in spec) and start[0] in ("fresh", "reconfigured") and rng.random() < 0.7:
                # on a fresh / reconfigured instance the writes are the chain compilation, which the (cheaper)
                # first-use windows already cover
                spec = {"fu": spec.get("ws", spec.get("wc"))}
            rec["switches"] = [[spec, 0]]
        elif k < 0.65:
            rec["sched"] = "K2"
            rec["switches"] = [[{"frac": rng.random(), "of": "total"}, rng.randrange(4)] for _ in range(rng.randint(2, 4))]
            q = rng.random()
            if q < 0.4:
                rec["switches"][0] = [{"fu": rng.random()}, 0]
            elif q < 0.6:
                rec["switches"][0] = [{"wc": rng.random(), "loc": rng.random() < 0.5}, 0]
        elif k < 0.85:
            rec["sched"] = "K3"
            mean = rng.choice([5, 30, 100, 300, 1000])
            at, sw = 0, []
            for _ in range(60):
                at += 1 + int(rng.expovariate(1.0 / mean))
                sw.append([{"abs": at}, rng.randrange(4)])
            rec["switches"] = sw
        else:
            rec["sched"] = "K4"
            q = rng.choice([1, 2, 3, 7])
            rec["switches"] = [[{"win": rng.random(), "q": q, "j": j}, 0] for j in range(rng.choice([20, 60, 150]))]
    return rec


# --------------------------------------------------------------------------- execution
def _module_warmup():
    """Fixed, untraced use of the library that fills whatever process-global memos the tree keeps."""
    mode = sched._mode
    sched.set_mode(None)
    try:
        docgen.build(BASE_CFG).render(WARM_DOC)
    finally:
        sched.set_mode(mode)


def _traced(fn, budget=5_000_000, record=False, watch=None, sampler=None):
    """Run fn() on this thread as simulated thread 0 of a single-thread Sim (steps are counted)."""
    sim = sched.Sim(1, [], [budget], record_trace=record)
    sim.watch = watch
    sim.sampler = sampler
    sched._cur = sim
    sched._tls.tid = 0
    try:
        out = fn()
    finally:
        sched._tls.tid = None
        sched._cur = None
    return out, sim


def _resolve(switches, t0_steps, total, fu_steps, w0=(), wc_steps=(), wc_locs=None, w1=(), t1_steps=0):
    out = []
    for spec, pick in switches:
        if "abs" in spec:
            at = spec["abs"]
        elif "tw" in spec:
            # relative to the previous switch: thread 1's own step k happens at global step (previous switch) + k
            prev = out[-1][0] if out else 0
            if w1:
                at = prev + w1[min(int(spec["tw"] * len(w1)), len(w1) - 1)] + 1 + spec.get("d", 0)
            else:
                at = prev + 1 + int(spec["tw"] * max(t1_steps - 1, 1))
        elif "ws" in spec and w0:
            at = w0[min(int(spec["ws"] * len(w0)), len(w0) - 1)] + 1 + spec.get("d", 0)
        elif "wc" in spec and wc_steps:
            if spec.get("loc") and wc_locs:
                # location-uniform: every distinct line/instruction of the writer functions is equally likely,
                # however often the call executes it
                keys = sorted(wc_locs)
                occ = wc_locs[keys[min(int(spec["wc"] * len(keys)), len(keys) - 1)]]
                at = occ[int((spec["wc"] * 7919) % 1 * len(occ))]
            else:
                at = wc_steps[min(int(spec["wc"] * len(wc_steps)), len(wc_steps) - 1)]
        elif "ws" in spec or "wc" in spec:
            x = spec.get("ws", spec.get("wc"))
            if fu_steps:
                at = fu_steps[min(int(x * len(fu_steps)), len(fu_steps) - 1)]
            else:
                at = 1 + int(x * max(t0_steps - 1, 1))
        elif "fu" in spec:
            if fu_steps:
                at = fu_steps[min(int(spec["fu"] * len(fu_steps)), len(fu_steps) - 1)]
            else:
                at = 1 + int(spec["fu"] * max(t0_steps - 1, 1))
        elif "win" in spec:
            start = 1 + int(spec["win"] * max(total - 1, 1))
            at = start + spec["j"] * spec["q"]
        else:
            base = t0_steps if spec.get("of") == "t0" else total
            at = 1 + int(spec["frac"] * max(base - 1, 1))
        out.append([max(1, int(at)), pick])
    return out


def execute(rec: dict, res: RunResult) -> None:
    sched.setup()
    sched.set_mode(rec["gran"])
    threads = rec["threads"]
    nested = rec.get("nested")
    n = len(threads)
    if rec["start"][0] == "aged":
        age = resolve_age(rec["start"][1])
        rec = {**rec, "start": ["aged", age]}
        res.events.append(["aged", age])
        res.count("aged_start_runs")
        if boundaries():
            res.count("aged_to_a_discovered_capacity_limit")

    # every run starts from the same process-global library state (module/class-level memos as they were after the
    # fixed warm-up, functools caches empty): a run is a function of its record, not of what the worker ran before
    if shared_state.reset_module_state():
        res.count("runs_that_found_module_state_left_by_an_earlier_run")
    cold = bool(rec.get("cold_text_cache"))
    if cold:
        res.count("cold_module_cache")
    else:
        _module_warmup()
    # ---- 1. solo outcomes (each call alone on a fresh, identically configured instance in the same start state)
    solo, solo_steps, nest_counts = [], [], {}
    fu_steps: list[int] = []
    sweep = rec.get("sweep") if rec.get("sched") == "SWEEP" else None
    need_w = n > 1 and (sweep is not None or any(("ws" in s[0] or "wc" in s[0] or "tw" in s[0]) for s in rec["switches"]))
    need_fu = need_w or any("fu" in s[0] for s in rec["switches"])
    w0: list[int] = []            # steps of thread 0's first call at which shared state changed
    w1: list[int] = []            # the same for thread 1's first call
    writer_codes: set[int] = set()
    trace0: list = []
    for t, calls in enumerate(threads):
        solo.append([])
        solo_steps.append([])
        for c, (m, d, ek) in enumerate(calls):
            twin = build_shared(rec)
            arm = _Arm(None, None, None)      # counts invocations of the nested callback, never fires
            record = need_fu and t == 0 and c == 0

            def run(twin=twin, m=m, d=d, ek=ek, arm=arm):
                _ctx.cur = arm
                try:
                    return call_outcome(twin, m, d, ek)
                finally:
                    _ctx.cur = None
            if cold:
                shared_state.reset_module_state()
            fp0 = shared_state.fingerprint(twin) if need_w else None
            sampler = None
            transient: set = set()
            if need_w:
                # state that is changed and put back before the call returns (a slot emptied while in use, an option
                # narrowed around a nested parse) is invisible to a before/after comparison: look a few dozen times
                # DURING the call as well
                nsamp = [0]

                def sample(twin=twin, fp0=fp0, nsamp=nsamp, transient=transient):
                    if nsamp[0] < 14:
                        nsamp[0] += 1
                        transient.update(shared_state.changed_chains(fp0, shared_state.fingerprint(twin)))
                sampler = (sample, 300 if rec["gran"] == "LINE" else 1500)
            out, sim = _traced(run, record=record, sampler=sampler)
            if need_w:
                final = shared_state.changed_chains(fp0, shared_state.fingerprint(twin))
                if transient - set(final):
                    res.count("solo_calls_with_transient_shared_state_changes")
                chains = sorted(set(final) | transient, key=repr)
                if chains:
                    # this call writes state that outlives it: run it once more on an identical twin with per-step
                    # probes on exactly the changed places to learn WHEN (the writer's race windows) and WHERE
                    res.count("solo_calls_that_write_shared_state")
                    twin2 = build_shared(rec)
                    if cold:
                        shared_state.reset_module_state()
                    wt = shared_state.Watch(twin2, chains)
                    arm2 = _Arm(None, None, None)
                    (_, sim2) = _traced(lambda: run(twin=twin2, arm=arm2), record=True, watch=wt)
                    wt.poll(sim2.steps[0] + 1)
                    ws = [w for w in wt.writes if 1 <= w <= len(sim2.trace)]
                    writer_codes.update(sim2.trace[w - 1][0] for w in ws)
                    if t == 0 and c == 0:
                        w0 = ws
                    if t == 1 and c == 0:
                        w1 = ws
            if record:
                trace0 = sim.trace
                if rec["gran"] == "LINE":
                    # reach measure only: which library lines the workload executes at all (denominator of preemption_sites)
                    for cid, arg in set(sim.trace):
                        res.reach("library_lines_executed", f"{sched.code_name(cid)}:{arg}")
            solo[t].append(out)
            solo_steps[t].append(sim.steps[0])
            nest_counts[(t, c)] = arm.count
            if record:
                (_, simB) = _traced(run, record=True)
                warm_locs = set(simB.trace)
                fu_steps = [i + 1 for i, loc in enumerate(sim.trace) if loc not in warm_locs]
    inner_solo = None
    inner_steps = 0
    arm_at = None
    if nested:
        twin = build_shared(rec)
        inner_solo, isim = _traced(lambda: call_outcome(twin, nested["method"], nested["doc"], "dict"))
        inner_steps = isim.steps[0]
        cnt = nest_counts[(nested["thread"], nested["call"])]
        inv = nested["inv"]
        if "abs" in inv:
            arm_at = inv["abs"]
        elif cnt > 0:
            arm_at = 1 + min(int(inv["frac"] * cnt), cnt - 1)
        res.count("nested_configured")

    t0_steps = sum(solo_steps[0])
    total = sum(sum(x) for x in solo_steps)
    wc_steps, wc_locs = [], {}
    if need_w and writer_codes:
        for i, loc in enumerate(trace0):
            if loc[0] in writer_codes:
                wc_steps.append(i + 1)
                wc_locs.setdefault((sched.code_name(loc[0]), loc[1]), []).append(i + 1)
        res.count("runs_with_write_directed_preemption")
    if need_w:
        res.events.append(["writes", len(w0), len(wc_steps)])
        if w0 or wc_steps or w1:
            # write steps found on a fresh instance lie in the chain compilation, whose internal order follows the
            # iteration order of a set of chain names: under another PYTHONHASHSEED the resolved step may differ
            res.events.append(["hash_order_dependent_schedule"])
    switches = _resolve(rec["switches"], t0_steps, total, fu_steps, w0, wc_steps, wc_locs, w1,
                        solo_steps[1][0] if n > 1 else 0) if n > 1 else []
    budgets = [10 * (sum(solo_steps[t]) + (inner_steps * nested.get("rep", 1) if nested and nested["thread"] == t else 0))
               + 50_000
               for t in range(n)]
    res.events.append(["solo_steps", solo_steps, "fu", len(fu_steps), "arm_at", arm_at])

    if sweep is not None:
        _run_sweep(rec, res, sweep, solo, solo_steps, fu_steps, w0, budgets, cold, t0_steps)
        return

    # ---- 2. the concurrent / nested phase on ONE shared instance
    md = build_shared(rec)
    if cold:
        shared_state.reset_module_state()      # module-level first-use effects happen INSIDE the concurrent phase
    before = (md.get_active_rules(), dict(md.options))
    results = [[None] * len(threads[t]) for t in range(n)]
    arms: dict = {}

    def body(tid):
        for c, (m, d, ek) in enumerate(threads[tid]):
            arm = None
            if nested and nested["thread"] == tid and nested["call"] == c:
                arm = arms[(tid, c)] = _Arm(arm_at, nested["method"], nested["doc"], nested.get("rep", 1),
                                            nested.get("gap", 1))
            _ctx.cur = arm
            sim.in_call[tid] = True
            try:
                results[tid][c] = call_outcome(md, m, d, ek)
            finally:
                sim.in_call[tid] = False
                _ctx.cur = None
            if results[tid][c][0] in ("nonterm", "deadlock"):
                break

    if n == 1:
        sim = sched.Sim(1, [], budgets)
        sched._cur = sim
        sched._tls.tid = 0
        try:
            body(0)
        finally:
            sched._tls.tid = None
            sched._cur = None
    else:
        sim = sched.Sim(n, switches, budgets)
        sim.run([body] * n)
    res.steps = sim.gstep
    res.events.append(["fired", [list(f) for f in sim.fired], "steps", sim.steps])
    res.events.append(["results", results])
    res.count("preemptions_fired", len(sim.fired))
    res.count(f"preemptions_fired_{rec['sched']}", len(sim.fired))
    res.count(f"runs_{rec['gran']}")
    res.count("lock_ops", sim.lock_ops)
    if sim.overlapped:
        res.count("overlapped_runs")
        res.nontrivial = True
    fu_set = set(fu_steps)
    if any(f[0] in fu_set for f in sim.fired):
        res.count("preemption_in_first_use_window")
    for f in sim.fired:
        res.reach("preemption_sites", ("L|" if rec["gran"] == "LINE" else "I|") + f[3])
        if rec["gran"] == "LINE":
            res.reach("library_lines_used_as_preemption_point", f[3])
        res.reach("distinct_interleavings", f"{f[3]}|{f[1]}>{f[2]}")
    a = arms.get((nested["thread"], nested["call"])) if nested else None
    if a is not None and a.fired:
        res.count("nested_reentries_fired", len(a.inners))
        if len(a.inners) > 1:
            res.count("runs_with_several_reentries_in_one_call")
        res.nontrivial = True
        res.reach("nested_sites", "|".join(map(str, nested["where"])) + ">" + nested["method"])
        if nested["where"][0] == "highlight":
            res.count("nested_from_highlight")
        if nested["where"][0] == "hook":
            res.count("nested_from_link_hook")

    # ---- 3. oracle
    site = rec["start"][0]
    for t in range(n):
        for c in range(len(threads[t])):
            got, exp = results[t][c], solo[t][c]
            if got is None:
                continue
            if got[0] == "deadlock" and exp[0] != "deadlock":
                res.fail("DEADLOCK", f"thread {t} call {c} {threads[t][c][0]}({threads[t][c][1]!r}) can never return: "
                                     f"{got[1]} (alone it returns {str(exp)[:200]})"
                                     + (f"; nested re-entry fired={a.fired}" if a is not None else ""), site)
                return
            if got[0] == "nonterm":
                res.count("budget_aborts")
                res.fail("NONTERMINATION", f"thread {t} call {c} {threads[t][c][0]}({threads[t][c][1]!r}) ran more than "
                                           f"10x its solo step count ({solo_steps[t][c]}) and was aborted; switches fired: "
                                           f"{sim.fired[:4]}", site)
                return
            if got != exp:
                cls = "EXCEPTION" if (got[0] == "exc" and exp[0] != "exc") else "RESULT_DIFF"
                res.fail(cls, f"thread {t} call {c} {threads[t][c][0]}({threads[t][c][1]!r}): got {str(got)[:400]} "
                              f"but alone it returns {str(exp)[:400]}; switches fired: {sim.fired[:4]}"
                              + (f"; nested re-entry fired={a.fired}" if a is not None else ""), site)
                return
    bad_inner = next((x for x in (a.inners if a is not None else []) if x != inner_solo), None)
    if bad_inner is not None:
        res.fail("NESTED_DIFF", f"re-entrant {nested['method']}({nested['doc']!r}) from {nested['where']} "
                                f"(invocation {arm_at}, {len(a.inners)} re-entries) returned {str(bad_inner)[:400]} but alone it returns "
                                f"{str(inner_solo)[:400]}", site)
        return

    # ---- 4. aftermath: no lasting corruption of the shared instance
    if (md.get_active_rules(), dict(md.options)) != before:
        res.fail("AFTERMATH_DIFF", "active rules/options of the shared instance changed during the calls", site)
        return
    for t in range(n):
        for c, (m, d, ek) in enumerate(threads[t]):
            out, _ = _traced(lambda m=m, d=d, ek=ek: call_outcome(md, m, d, ek), budget=10 * solo_steps[t][c] + 50_000)
            if out != solo[t][c]:
                res.fail("AFTERMATH_DIFF", f"after all calls finished, {m}({d!r}) alone on the shared instance gives "
                                           f"{str(out)[:300]} instead of {str(solo[t][c])[:300]}", site)
                return


def _run_sweep(rec, res, sweep, solo, solo_steps, fu_steps, w0, budgets, cold, t0_steps):
    threads = rec["threads"]
    pos = set(fu_steps)
    for w in w0:
        pos.update(x for x in (w, w + 1, w + 2) if x >= 1)
    windows = len(pos)
    k = sweep["extra"]
    pos.update(1 + int(j * max(t0_steps - 1, 1) / k) for j in range(k))
    pos = sorted(p for p in pos if 1 <= p <= t0_steps)
    total = len(pos)
    if total > sweep["cap"]:
        step = total / sweep["cap"]
        pos = [pos[int(j * step)] for j in range(sweep["cap"])]
    res.events.append(["hash_order_dependent_schedule"])      # positions come from first-use / write windows
    res.count("sweep_runs")
    res.count("sweep_positions_total", total)
    res.count("sweep_positions_in_first_use_or_write_windows", windows)
    res.count("sweep_positions_executed", len(pos))
    res.count(f"runs_{rec['gran']}")
    res.nontrivial = True
    site = rec["start"][0]
    for at in pos:
        md = build_shared(rec)
        if cold:
            shared_state.reset_module_state()
        results = [[None], [None]]

        def body(tid, md=md, results=results):
            m, d, ek = threads[tid][0]
            sim.in_call[tid] = True
            try:
                results[tid][0] = call_outcome(md, m, d, ek)
            finally:
                sim.in_call[tid] = False
        sim = sched.Sim(2, [(at, 0)], budgets)
        sim.run([body, body])
        res.steps += sim.gstep
        for f in sim.fired:
            res.reach("preemption_sites", ("L|" if rec["gran"] == "LINE" else "I|") + f[3])
            if rec["gran"] == "LINE":
                res.reach("library_lines_used_as_preemption_point", f[3])
            res.reach("distinct_interleavings", f"{f[3]}|{f[1]}>{f[2]}")
        res.count("preemptions_fired", len(sim.fired))
        res.count("preemptions_fired_SWEEP", len(sim.fired))
        for t in (0, 1):
            got, exp = results[t][0], solo[t][0]
            if got != exp:
                cls = "NONTERMINATION" if got and got[0] == "nonterm" else \
                    "DEADLOCK" if got and got[0] == "deadlock" else \
                    "EXCEPTION" if (got and got[0] == "exc" and exp[0] != "exc") else "RESULT_DIFF"
                res.fail(cls, f"sweep: thread 0 pre-empted at its step {at} ({sim.fired[:1]}): thread {t} "
                              f"{threads[t][0][0]}({threads[t][0][1]!r}) got {str(got)[:300]} but alone it returns "
                              f"{str(exp)[:300]}", site)
                res.violation["at"] = at
                res.events.append(["sweep", len(pos), at])
                return
    res.events.append(["sweep", len(pos), None])
    res.events.append(["results", [solo[0][0], solo[1][0]]])


class C13(Engine):
    prop = "C13"
    level = "exploration"
    timeout_s = None      # step-budgeted (deterministic), no wall guard inside runs
    rule = ("seeded schedules: 2 (thorough: 2-3) real caller threads, 1-2 calls each (parse/render/parseInline/"
            "renderInline, own document and env) on one shared instance started fresh / warm / reconfigured / options "
            "reassigned / aged by n earlier documents (n just below a discovered capacity limit when the tree has one); "
            "pre-emption before any library source line (LINE) or bytecode (INSTRUCTION) per the run's switch list: K1 single "
            "pre-emption (uniform, first-use windows, at thread 0's shared-state writes, inside writer functions), K2 2-4 "
            "change points, K3 random gaps, K4 fine round-robin window, K5 ping-pong around both threads' writes; plus 1-3 "
            "re-entrant calls per enclosing call from plugin rules / render rules / highlight / link hooks. Non-trivial = a "
            "pre-emption fired while >= 2 threads were inside a library call, or a nested re-entry fired; distinct = distinct "
            "event-log digests among those.")
    assumptions = ["pre-emption only inside markdown_it frames; C code, mdurl, dataclass-generated methods and harness "
                   "callbacks are atomic", "configuration is not mutated during the concurrent phase",
                   "CPython 3.12 sys.monitoring",
                   "process-global library state (module/class-level containers, functools caches) is put back to its "
                   "post-warm-up value before every run", "the shared-state fingerprint only biases where pre-emptions are "
                   "placed; no verdict depends on it"]
    components = {"real": ["all of markdown_it", "mdurl", "CPython threads (threading.Thread)"],
                  "harness_supplied": ["caller threads' workloads", "re-entering pass-through plugin/render rules", "envs"],
                  "stub": [], "simulated": ["the thread scheduler: which thread runs after every library line/bytecode",
                                            "threading.Lock/RLock as seen by library modules (scheduler-aware; unused today)",
                                            "the age of the instance (how many documents it has processed before)"]}
    expected_probes = ["aged_start_runs", "solo_calls_that_write_shared_state", "runs_with_write_directed_preemption",
                       "preemption_in_first_use_window", "overlapped_runs", "nested_reentries_fired", "nested_from_link_hook",
                       "preemptions_fired_K1", "preemptions_fired_K2", "preemptions_fired_K3", "preemptions_fired_K4",
                       "preemptions_fired_K5", "sweep_runs",
                       "runs_LINE", "runs_INSTRUCTION"]
    default_workers = 16
    virtual_workers = 160     # runs are independent of the process's past (module state is reset per run)

    def budget(self, tier):
        if tier == "quick":
            return {"runs": 16_000, "wall_s": 170, "selftest_samples": 24, "selftest_two_hashseeds": True}
        return {"runs": 300_000, "wall_s": 2700, "selftest_samples": 48}

    def warmup(self):
        from markdown_it import MarkdownIt
        sched.setup()

        def work():
            for p in ("js-default", "commonmark", "zero"):
                md = MarkdownIt(p, {"linkify": False, "typographer": True}).enable(["replacements", "smartquotes"])
                md.render(WARM_DOC + "\n| a |\n|---|\n| b |\n\n<div>\nx\n</div>\n\n~~s~~ \"q\" -- <http://a.b> &amp; \\* <b>\n\n1. x\n\n***\n\nh\n===\n")
                md.renderInline("*a* ![b](/c \"t\")")
                md.parse("[x][r]\n\n[r]: <a b> 'c'\n")
        self.entered = sched.selfcheck_walker(work)
        # the first INSTRUCTION/LINE instrumentation of a code object is a first-use effect too: do both once
        for mode in ("INSTRUCTION", "LINE"):
            sched.set_mode(mode)
            _traced(work)
        # process-global library state as of now is what every run starts from (functools caches are emptied on top)
        shared_state.snapshot_module_state()

    def gen(self, rng, i, tier):
        return gen(rng, tier)

    def stable_digest(self, res):
        # The chain compilation iterates a set of chain names: under another PYTHONHASHSEED the same step number falls on
        # another line of whatever function does that.  The digest compared under ANOTHER hash seed therefore carries no
        # source locations (and no function names - a refactoring may rename them): step numbers, threads, per-thread step
        # counts and results must still agree.
        from ..core import digest
        if any(e and e[0] == "hash_order_dependent_schedule" for e in res.events):
            keep = [e for e in res.events if e and e[0] in ("results", "aged")]
            return digest({"events": keep, "violation": res.violation["cls"] if res.violation else None})
        ev = []
        for e in res.events:
            if e and e[0] == "fired":
                ev.append(["fired", [[f[0], f[1], f[2]] for f in e[1]]] + list(e[2:]))
            else:
                ev.append(e)
        return digest({"events": ev, "violation": res.violation["cls"] if res.violation else None})

    def execute(self, rec):
        res = RunResult()
        try:
            execute(rec, res)
        finally:
            sched._tls.tid = None
        return res

    def shrink_steps(self, rec):
        if rec.get("sched") == "SWEEP":
            res = self.execute(rec)
            if res.violation and "at" in res.violation:
                yield {**{k: v for k, v in rec.items() if k != "sweep"}, "sched": "K1",
                       "switches": [[{"abs": res.violation["at"]}, 0]]}
            return
        # resolve the switch list to absolute steps first (uses the events of an execution)
        if any("abs" not in s[0] for s in rec["switches"]) or (rec.get("nested") and "abs" not in rec["nested"]["inv"]) \
                or (rec["start"][0] == "aged" and not isinstance(rec["start"][1], int)):
            res = self.execute(rec)
            age = next((e[1] for e in res.events if e[0] == "aged"), None)
            if age is not None:
                rec = {**rec, "start": ["aged", age]}
            fired = next((e[1] for e in res.events if e[0] == "fired"), [])
            arm_at = next((e[5] for e in res.events if e[0] == "solo_steps"), None)
            cand = {**rec, "switches": [[{"abs": f[0]}, f[2]] for f in fired]}
            # picks are indices into "other live threads": recompute as target thread order-preserving pick
            cand["switches"] = [[{"abs": f[0]}, _pick_for(f, len(rec["threads"]))] for f in fired]
            if rec.get("nested") and arm_at is not None:
                cand["nested"] = {**rec["nested"], "inv": {"abs": arm_at}}
            yield cand
            return
        sw = rec["switches"]
        for j in range(len(sw)):
            yield {**rec, "switches": sw[:j] + sw[j + 1:]}
        if len(sw) > 2:
            yield {**rec, "switches": sw[: len(sw) // 2]}
            yield {**rec, "switches": sw[len(sw) // 2:]}
        if rec.get("nested"):
            yield {**rec, "nested": None}
        if len(rec["threads"]) > 2:
            for t in range(len(rec["threads"])):
                if not rec.get("nested") or rec["nested"]["thread"] != t:
                    nt = rec["threads"][:t] + rec["threads"][t + 1:]
                    nn = rec.get("nested")
                    if nn and nn["thread"] > t:
                        nn = {**nn, "thread": nn["thread"] - 1}
                    yield {**rec, "threads": nt, "nested": nn}
        for t, calls in enumerate(rec["threads"]):
            if len(calls) > 1 and not rec.get("nested"):
                yield {**rec, "threads": rec["threads"][:t] + [calls[:1]] + rec["threads"][t + 1:]}
                yield {**rec, "threads": rec["threads"][:t] + [calls[1:]] + rec["threads"][t + 1:]}
        if rec["cfg"] != BASE_CFG:
            yield {**rec, "cfg": dict(BASE_CFG)}
        if rec["start"][0] != "fresh":
            yield {**rec, "start": ["fresh"]}
        if rec["start"][0] == "aged" and rec["start"][1] > 1:
            yield {**rec, "start": ["aged", rec["start"][1] // 2]}
            yield {**rec, "start": ["aged", rec["start"][1] - 1]}
        if rec.get("cold_text_cache"):
            yield {**rec, "cold_text_cache": False}
        if rec.get("hl"):
            yield {**rec, "hl": False}
        # simpler documents: step indices shift, so re-sweep a single remaining switch over the new step range
        for t, calls in enumerate(rec["threads"]):
            for c, (m, d, ek) in enumerate(calls):
                for simple in (["a"] if "Inline" in m else docgen.LADDER):
                    if len(simple) >= len(d):
                        continue
                    nt = [list(map(list, x)) for x in rec["threads"]]
                    nt[t][c] = [m, simple, "dict"]
                    base = {**rec, "threads": nt}
                    yield base
                    if len(sw) == 1 and len(rec["threads"]) == 2:
                        for at in _sweep_points(sw[0][0]["abs"]):
                            yield {**base, "switches": [[{"abs": at}, sw[0][1]]]}
        if rec.get("nested"):
            nn = rec["nested"]
            for simple in docgen.LADDER:
                if len(simple) < len(nn["doc"]) and "Inline" not in nn["method"]:
                    yield {**rec, "nested": {**nn, "doc": simple}}
            if nn.get("rep", 1) > 1:
                yield {**rec, "nested": {**nn, "rep": nn["rep"] - 1}}
            if nn.get("gap", 1) > 1:
                yield {**rec, "nested": {**nn, "gap": 1}}
            if nn["inv"].get("abs", 1) > 1:
                yield {**rec, "nested": {**nn, "inv": {"abs": 1}}}
                yield {**rec, "nested": {**nn, "inv": {"abs": nn["inv"]["abs"] // 2}}}


def _pick_for(f, n):
    """fired = (gstep, from, to, loc): pick index such that others[pick % len(others)] == to when all threads live."""
    others = [t for t in range(n) if t != f[1]]
    return others.index(f[2]) if f[2] in others else 0


def _sweep_points(at):
    seen = set()
    for d in list(range(0, 40)) + list(range(40, 400, 7)) + list(range(400, 4000, 61)):
        for x in (at - d, at + d):
            if x >= 1 and x not in seen:
                seen.add(x)
                yield x


ENGINE = C13()
