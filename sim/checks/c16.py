"""C16 - reference definitions act through env: seeding env equals prepending them.

Engine `hist-env` (DESIGN.md section 8): seeded histories of parses that share a caller-owned env (the
"storage"), then a probe document.  Oracle = single-copy log (one parse of the concatenated definitions +
document) plus an independent first-wins map built from the generator's own knowledge.
The last sentence of the property (reference form == inline form) has no history in it; it is evaluated as a
step invariant on the links the machine generates anyway and is labelled as plain generated-input checking.
"""

from __future__ import annotations

import collections
import copy
import random

from ..core import Engine, RunResult
from .. import docgen

# label alphabet: on these characters str.lower().upper() and str.casefold() induce the same equivalence
# (asserted per generated pair); U+0130/U+0131 are excluded on purpose.
LETTERS = list("abcxyzKQ") + list("äöüÄÖÜßẞσςΣжЖéÉ") + ["ǅ", "ﬁ", "K"]
# theta/omega/angstrom/long-s/micro variants and a combining mark (every generated pair is still vetted by _agree)
LETTERS += list("\u03b8\u03d1\u0398\u03f4\u03a9\u2126\u00c5\u212b\u017fs\u00b5\u03bc") + ["\u0301"]
SIMPLE_DESTS = ["/u1", "/u2", "/path/three", "http://example.com/x", "#frag", "rel.html", "/u(1)"]
RICH_DESTS = ["<a b>", "<>", "/a\\*b", "/e&amp;f", "/p%20q", "/é", "<sp ace\\>>", "/x&ouml;y", "mailto:a@b.c",
              "//host/p?q=1&r=2", "/back\\\\slash", "<\\<lt>"]
SIMPLE_TITLES = ["", "", "t1", "Title Two", "x"]
RICH_TITLES = ['"one\\\ntwo"', "'a\\\nb\\\nc'", '"q \\"esc\\" q"', "'sq'", "(par)", '"&copy; &amp; &#35;"', '"multi\nline"', '"a\\*b"', "'it\\'s'",
               '"<b>"', '""', "'with \"dq\"'"]


def norm_model(label: str) -> str:
    """The harness's own label normalisation: whitespace collapsed, Unicode case folding."""
    return " ".join(label.split()).casefold()


def _agree(a: str, b: str) -> bool:
    f1 = lambda s: " ".join(s.split()).lower().upper()  # noqa: E731
    return (f1(a) == f1(b)) == (norm_model(a) == norm_model(b))


def _variant(rng, label: str) -> tuple[str, str]:
    k = rng.randrange(8)
    if k == 0:
        return label, "same"
    if k == 1:
        return label.upper(), "case"
    if k == 2:
        return label.lower(), "case"
    if k == 3:
        return label.swapcase(), "case"
    if k == 4:
        # every internal whitespace run becomes one other run (never a blank line: that would end the paragraph)
        parts = label.split()
        out = parts[0]
        for part in parts[1:]:
            out += rng.choice(["  ", "\t", " \t ", "\n", " \n"]) + part
        return out, "ws" if len(parts) > 1 else "same"
    if k == 5:
        return " " + label + rng.choice([" ", "\t"]), "ws"
    if k == 6:
        return label.casefold(), "case"
    return label.title(), "case"


def _gen_label(rng) -> str:
    parts = ["".join(rng.choice(LETTERS) for _ in range(rng.randint(1, 3))) for _ in range(rng.randint(1, 2))]
    if rng.random() < 0.02:
        # a very long label (still below the 999 characters CommonMark allows) whose letters grow when case-folded
        unit = "".join(rng.choice(["ß", "ﬁ", "ǅ", "a", "ẞ", "b c"]) for _ in range(6))
        parts = [(unit * 200)[:rng.choice([480, 700, 960])].strip()]
    return " ".join(parts) + "7"


def _gen_def(rng, labels: list[str]) -> dict:
    if labels and rng.random() < 0.45:
        label, _ = _variant(rng, rng.choice(labels))          # duplicate of an earlier label, on purpose
    else:
        label = _gen_label(rng)
    simple = rng.random() < 0.5
    if simple:
        dest, title_txt = rng.choice(SIMPLE_DESTS), rng.choice(SIMPLE_TITLES)
        title = f'"{title_txt}"' if title_txt else ""
    else:
        dest, title = rng.choice(SIMPLE_DESTS + RICH_DESTS), rng.choice(RICH_TITLES + [""])
        title_txt = None
    sep1 = rng.choice([" ", " ", "   ", "\n ", "\t"])
    sep2 = rng.choice([" ", " ", "\n", "\n  ", "  "]) if title else ""
    text = f"[{label}]:{sep1}{dest}{sep2}{title}"
    return {"label": label, "dest": dest, "title": title, "text": text, "simple": simple,
            "href": dest if simple else None, "title_txt": title_txt if simple else None}


def gen(rng: random.Random, tier: str) -> dict:
    cfg = docgen.config(rng)
    cfg["options"]["inline_definitions"] = False
    if cfg["options"].get("maxNesting", 20) < 20:
        # below the nesting limit the rest of a document is skipped by design (then its definitions are not "in the
        # source" as far as the parser is concerned); generated documents nest at most ~8 levels
        cfg["options"]["maxNesting"] = 20
    cfg["enable"] = sorted(set(cfg["enable"]) | {"reference", "link", "image"})
    cfg["disable"] = [x for x in cfg["disable"] if x not in ("reference", "link", "image")]
    labels: list[str] = []
    blocks = []
    for _ in range(rng.randint(1, 4)):
        defs = []
        for _ in range(rng.randint(1, 4)):
            d = _gen_def(rng, labels)
            labels.append(d["label"])
            defs.append(d)
        blocks.append(defs)
    # what happened to the instances BEFORE the history: they have parsed these very definitions into throw-away envs
    # ("warm": anything remembered per destination/label is now there), then a link hook was reassigned and/or the
    # reference rule was re-registered through the public API with terminator-chain membership
    pre = {"warm": rng.random() < 0.4,
           "nl_suffix": rng.choice(["?v=7", "#h"]) if rng.random() < 0.25 else None,
           "ref_alt": rng.choice([["paragraph"], ["paragraph", "blockquote"], ["blockquote", "list"], []])
           if rng.random() < 0.25 else None}
    # a user container rule (':::' ... ':::') that parses its body as a nested sub-document with md.block.parse on the
    # SAME env, as directive-style plugins do; in some blocks the definitions from index k on sit inside such a container
    pre["container"] = rng.random() < 0.2
    wraps = [None] * len(blocks)
    if pre["container"]:
        wraps = [(rng.randrange(len(b)) if rng.random() < 0.6 else None) for b in blocks]
    # whole blocks inside a block quote or a list item (definitions act document-wide from inside containers too; their
    # continuation lines - multi-line titles - carry the container's indentation in the source)
    kinds = [None] * len(blocks)
    if rng.random() < 0.3:
        kinds = [(rng.choice(["quote", "list", "olist"]) if (wraps[b] is None and rng.random() < 0.6) else None)
                 for b in range(len(blocks))]
    leads = [None] * len(blocks)
    if pre["ref_alt"] and "paragraph" in pre["ref_alt"]:
        # the rule may now interrupt a paragraph: a definition directly under a line of text
        leads = [(f"lead text {b}" if (rng.random() < 0.5 and kinds[b] is None) else None) for b in range(len(blocks))]
    n_env = rng.choice([1, 1, 2])
    n_inst = rng.choice([1, 1, 2])
    hist = []
    for b in range(len(blocks)):
        e = rng.randrange(n_env)
        hist.append([rng.randrange(n_inst), e, b])
        if rng.random() < 0.25:
            hist.append([rng.randrange(n_inst), e, b])      # seeded twice
    if rng.random() < 0.3:
        rng.shuffle(hist)
    # probe
    doc = docgen.document(rng, 3)
    redefine = None
    if rng.random() < 0.35:
        redefine = _gen_def(rng, labels)
    uses = []
    pool = labels + [_gen_label(rng) for _ in range(2)]      # incl. labels never defined
    for _ in range(rng.randint(2, 6)):
        base = rng.choice(pool)
        var, vk = _variant(rng, base)
        uses.append({"label": var, "vk": vk, "form": rng.choice(["full", "full", "collapsed", "shortcut", "image"])})
    return {"cfg": cfg, "pre": pre, "leads": leads, "wraps": wraps, "kinds": kinds, "blocks": blocks, "n_env": n_env, "n_inst": n_inst, "hist": hist,
            "env_type": rng.choice(["dict", "dict", "userdict", "defaultrefs"]),
            "pre_uses": rng.random() < 0.25,
            "probe": {"inst": rng.randrange(n_inst), "env": rng.randrange(n_env), "doc": doc, "redefine": redefine,
                      "uses": uses}}


def _block_text(defs) -> str:
    return "\n".join(d["text"] for d in defs) + "\n"


def _use_text(u) -> str:
    L = u["label"]
    return {"full": f"[t][{L}]", "collapsed": f"[{L}][]", "shortcut": f"[{L}]", "image": f"![t][{L}]"}[u["form"]]


def _strip_maps(refs):
    return {k: {a: b for a, b in v.items() if a != "map"} for k, v in refs.items()}


def _strip_maps_list(dups):
    return [{a: b for a, b in v.items() if a != "map"} for v in dups]


def _container_rule(state, startLine, endLine, silent):
    def marker(line):
        if state.is_code_block(line):
            return False
        return state.src[state.bMarks[line] + state.tShift[line]:state.eMarks[line]].strip() == ":::"
    if not marker(startLine):
        return False
    nxt = startLine + 1
    while nxt < endLine and not marker(nxt):
        nxt += 1
    if nxt >= endLine:
        return False
    if silent:
        return True
    body = state.getLines(startLine + 1, nxt, state.blkIndent, True)
    state.md.block.parse(body, state.md, state.env, state.tokens)      # nested sub-document, same env
    state.line = nxt + 1
    return True


def _wrapped_text(defs, k) -> str:
    if k is None:
        return _block_text(defs)
    return "".join(d["text"] + "\n" for d in defs[:k]) + ":::\n" + "".join(d["text"] + "\n" for d in defs[k:]) + ":::\n"


# adjacent lists merge when they have the same bullet character / the same ordered delimiter (whatever the number)
MARKERS = {"list": ["- ", "* ", "+ "], "olist": ["1. ", "7) "]}


def _in_container(text: str, kind: str, nth: int) -> str:
    """The block's lines inside a block quote or as the single item of a list (marker rotates with the position in the
    env's log, so that two adjacent seeded blocks never merge into one list)."""
    lines = text.rstrip("\n").split("\n")
    if kind == "quote":
        return "".join("> " + ln + "\n" for ln in lines)
    m = MARKERS[kind][nth % len(MARKERS[kind])]
    pad = " " * len(m)
    return m + lines[0] + "\n" + "".join(pad + ln + "\n" for ln in lines[1:])


def build_inst(rec, used: bool):
    """An instance of the run's configuration; `used` ones have a past (see gen), the twin has none."""
    md = docgen.build(rec["cfg"])
    pre = rec.get("pre") or {}
    if used and pre.get("warm"):
        for defs in rec["blocks"]:
            uses = " ".join(f"[t][{d['label']}] [t]({d['dest']}{' ' if d['title'] else ''}{d['title']})" for d in defs)
            md.render(_block_text(defs) + "\n" + uses + "\n", {})
    if pre.get("container"):
        md.block.ruler.before("paragraph", "verif_container", _container_rule,
                              {"alt": ["paragraph", "reference", "blockquote", "list"]})
    if pre.get("nl_suffix"):
        orig, suffix = md.normalizeLink, pre["nl_suffix"]
        md.normalizeLink = lambda url: orig(url) + suffix
    if pre.get("ref_alt") is not None:
        r = md.block.ruler
        names = r.get_active_rules()
        fn = r.getRules("")[names.index("reference")]
        r.at("reference", fn, {"alt": list(pre["ref_alt"])})
    return md


def _first_link(md, src, env):
    toks = md.parse(src, env)
    for t in toks:
        for c in (t.children or []):
            if c.type == "link_open":
                return ("link", c.attrs.get("href"), c.attrs.get("title"))
            if c.type == "image":
                return ("image", c.attrs.get("src"), c.attrs.get("title"))
    return None


def execute(rec: dict, res: RunResult) -> None:
    def mk():
        if rec["env_type"] == "userdict":
            return collections.UserDict()
        if rec["env_type"] == "defaultrefs":
            # the caller made the references table itself, as a defaultdict-like mapping
            return {"references": collections.defaultdict(dict)}
        return {}
    insts = [build_inst(rec, True) for _ in range(rec["n_inst"])]
    pre = rec.get("pre") or {}
    leads = rec.get("leads") or [None] * len(rec["blocks"])
    suffix = pre.get("nl_suffix") or ""
    if pre.get("warm"):
        res.count("instances_with_a_past")
    if suffix:
        res.count("link_hook_reassigned_before_history")
    if pre.get("ref_alt") is not None:
        res.count("reference_rule_reregistered_with_alt")
    envs = [mk() for _ in range(rec["n_env"])]
    # the caller's own handles on the tables it created (defaultrefs): they are what it passes on later
    handles = [e.get("references") for e in envs]
    model: list[dict] = [dict() for _ in range(rec["n_env"])]     # key -> first definition (generator's knowledge)
    logs: list[list[str]] = [[] for _ in range(rec["n_env"])]
    seeded_blocks: list[set] = [set() for _ in range(rec["n_env"])]
    lead_log: list[list] = [[] for _ in range(rec["n_env"])]
    if rec["env_type"] == "userdict":
        res.count("userdict_env")
    if rec["n_inst"] > 1 and len({h[0] for h in rec["hist"] if h[1] == rec["probe"]["env"]} | {rec["probe"]["inst"]}) > 1:
        res.count("two_instances_one_env")

    # ---- the history: definition blocks parsed into caller-owned envs
    for k, (i, e, b) in enumerate(rec["hist"]):
        defs = rec["blocks"][b]
        if rec.get("pre_uses") and b not in seeded_blocks[e]:
            # the label is USED in this env before it is defined there: nothing may be recorded by that
            key0 = norm_model(defs[0]["label"])
            if key0 not in model[e]:
                n0 = (len(envs[e].get("references", {})), len(envs[e].get("duplicate_refs", [])))
                insts[i].render(f"[t][{defs[0]['label']}] [{defs[0]['label']}]\n", envs[e])
                n1 = (len(envs[e].get("references", {})), len(envs[e].get("duplicate_refs", [])))
                res.count("label_used_before_defined")
                if n1 != n0:
                    res.fail("BOOKKEEPING", f"step {k}: using the undefined label {defs[0]['label']!r} changed the env's "
                                            f"reference/duplicate counts {n0} -> {n1}", "use-before-define")
                    return
        lead = leads[b]
        wrap = (rec.get("wraps") or [None] * len(rec["blocks"]))[b]
        if wrap is not None and wrap >= len(defs):
            wrap = None
        text = (lead + "\n" if lead else "") + _wrapped_text(defs, wrap)
        if wrap is not None:
            res.count("definitions_inside_nested_subdocument_container")
        kind = (rec.get("kinds") or [None] * len(rec["blocks"]))[b]
        if kind and not lead and wrap is None:
            text = _in_container(text, kind, len(logs[e]))
            res.count("definitions_inside_blockquote_or_list_item")
        else:
            kind = None
        for d in defs:
            for key in model[e]:
                if not _agree(d["label"], model[e][key]["label"]):
                    res.count("discarded_fold_disagreement")
                    return
        env = envs[e]
        n_ref0 = len(env.get("references", {}))
        n_dup0 = len(env.get("duplicate_refs", []))
        toks = insts[i].parse(text, env)
        if kind:
            want = {"quote": ["blockquote_open", "blockquote_close"],
                    "list": ["bullet_list_open", "list_item_open", "list_item_close", "bullet_list_close"],
                    "olist": ["ordered_list_open", "list_item_open", "list_item_close", "ordered_list_close"]}[kind]
            if [t.type for t in toks] != want:
                # something of the block ended up as content of the container: nothing can be said about definitions
                res.count("discarded_container_block_not_pure_definitions")
                res.events.append([k, "discarded"])
                return
        elif lead:
            res.count("definition_directly_under_paragraph_text")
            if [t.type for t in toks] != ["paragraph_open", "inline", "paragraph_close"] or toks[1].content != lead:
                # the paragraph was not interrupted as the alt-chain registration asks (or more than the lead ended up in
                # it): nothing can be said about definitions here
                res.count("discarded_lead_paragraph_not_interrupted")
                res.events.append([k, "discarded"])
                return
        elif toks:
            # the generator only writes well-formed definitions (on the pinned tree this never happens): something of
            # the block was not taken as a definition
            res.fail("BOOKKEEPING", f"step {k}: a block consisting of definitions only, {text!r}, left tokens "
                                    f"{[t.type for t in toks][:6]} (content {[t.content for t in toks if t.content][:2]}): "
                                    f"not every definition in the source was taken as one", "not-a-definition")
            return
        refs = env.get("references", {})
        dups = env.get("duplicate_refs", [])
        res.events.append([k, "seed", e, b, len(refs), len(dups)])
        res.steps += 1
        if b in seeded_blocks[e]:
            res.count("seeded_twice")
        if (len(refs) - n_ref0) + (len(dups) - n_dup0) != len(defs):
            res.fail("BOOKKEEPING", f"step {k}: block with {len(defs)} definitions {text!r} added "
                                    f"{len(refs) - n_ref0} references + {len(dups) - n_dup0} duplicates", "count")
            return
        if b in seeded_blocks[e] and len(refs) != n_ref0:
            res.fail("BOOKKEEPING", f"step {k}: re-parsing an already seeded block added references", "reseed")
            return
        # every definition recorded exactly once, with the map of its own lines, first one wins
        new_refs = list(refs.items())[n_ref0:]
        new_dups = list(dups)[n_dup0:]
        line = 1 if lead else 0
        for di, d in enumerate(defs):
            if wrap is not None and di == wrap:
                line = 0            # inside the container: line numbers of the nested sub-document
            nlines = d["text"].count("\n") + 1
            key = norm_model(d["label"])
            if "\n" in d["text"]:
                res.count("multiline_definition")
            if key in model[e]:
                if not new_dups:
                    res.fail("FIRST_WINS", f"step {k}: later definition of {d['label']!r} was not recorded as a duplicate "
                                           f"(block {text!r})", "dup-missing")
                    return
                entry = new_dups.pop(0)
            else:
                if not new_refs:
                    res.fail("FIRST_WINS", f"step {k}: first definition of {d['label']!r} was not recorded as a reference "
                                           f"(block {text!r})", "ref-missing")
                    return
                entry = new_refs.pop(0)[1]
                model[e][key] = d
            if list(entry.get("map") or []) != [line, line + nlines]:
                res.fail("BOOKKEEPING", f"step {k}: definition {d['text']!r} occupies lines [{line}, {line + nlines}) of "
                                        f"{text!r} but was recorded with map {entry.get('map')}", "map")
                return
            if d["simple"] and (entry.get("href") != d["href"] + suffix or entry.get("title") != d["title_txt"]):
                res.fail("BOOKKEEPING", f"step {k}: definition {d['text']!r} recorded as href={entry.get('href')!r} "
                                        f"title={entry.get('title')!r}", "content")
                return
            line += nlines
        seeded_blocks[e].add(b)
        logs[e].append(text)
        # what the block itself renders to (a lead paragraph, an empty container): rendered alone on a never-used twin
        lead_log[e].append(lead + "\n" if lead else (text if kind else None))

    # ---- the probe document
    p = rec["probe"]
    md, env = insts[p["inst"]], envs[p["env"]]
    handed_on = False
    if rec["env_type"] == "defaultrefs" and rec.get("hand_on", True) and handles[p["env"]] is not None:
        # a site-wide references table placed into a NEW per-document env: what the earlier parses defined must be in the
        # caller's own object (duplicates live in the per-document envs and are not compared in this mode)
        env = {"references": handles[p["env"]]}
        handed_on = True
        res.count("callers_references_table_handed_to_a_new_env")
    # the generated document goes LAST: it may end inside an open fence / HTML block, which would swallow
    # anything appended to it
    D = ""
    if p["redefine"]:
        D = p["redefine"]["text"] + "\n\n"
        if norm_model(p["redefine"]["label"]) in model[p["env"]]:
            res.count("duplicate_in_D_of_seeded_label")
    use_paras = [_use_text(u) for u in p["uses"]]
    if any(rec.get("kinds") or []):
        D = "sep\n\n" + D          # a paragraph first: the document's own first block must not merge with a seeded list
    D = D + "\n\n".join(use_paras) + "\n\n" + p["doc"]
    seeded_keys = set(model[p["env"]])
    html_hist = md.render(D, env)
    fresh = build_inst(rec, False)
    env2 = mk()
    concat = "\n".join(logs[p["env"]]) + ("\n" if logs[p["env"]] else "") + D
    html_cat = fresh.render(concat, env2)
    # lead paragraphs of the seeding parses are part of the one-go document: their own HTML (rendered alone on a
    # never-used twin) comes first
    lead_html = "".join(build_inst(rec, False).render(ld) for ld in lead_log[p["env"]] if ld)
    html_hist = lead_html + html_hist
    res.events.append(["probe", html_hist])
    res.steps += 1
    if html_hist != html_cat:
        res.fail("SEED_VS_PREPEND", f"render(D, env seeded by {len(logs[p['env']])} earlier parses) differs from "
                                    f"render(definitions + blank line + D): D={D!r} seeded={logs[p['env']]!r} got "
                                    f"{html_hist[:300]!r} expected {html_cat[:300]!r}", "html")
        return
    if _strip_maps(env.get("references", {})) != _strip_maps(env2.get("references", {})):
        res.fail("SEED_VS_PREPEND", f"references after the history {_strip_maps(env.get('references', {}))} != after "
                                    f"the one-go parse {_strip_maps(env2.get('references', {}))}", "references")
        return
    if not handed_on and _strip_maps_list(env.get("duplicate_refs", [])) != _strip_maps_list(env2.get("duplicate_refs", [])):
        res.fail("SEED_VS_PREPEND", f"duplicate_refs after the history != after the one-go parse: "
                                    f"{_strip_maps_list(env.get('duplicate_refs', []))[:4]} vs "
                                    f"{_strip_maps_list(env2.get('duplicate_refs', []))[:4]}", "duplicates")
        return

    # ---- first-wins map (the generator's own knowledge) on isolated use paragraphs
    resolved_from_seed = 0
    m = model[p["env"]]
    for u, para in zip(p["uses"], use_paras):
        key = norm_model(u["label"])
        if not all(_agree(u["label"], d["label"]) for d in m.values()):
            res.count("discarded_fold_disagreement")
            continue
        got = _first_link(md, para + "\n", env)
        d = m.get(key)
        if d is None and p["redefine"] and norm_model(p["redefine"]["label"]) == key:
            d = p["redefine"]
        if d is None:
            if got is not None:
                res.fail("LABEL_MATCH", f"use {para!r} of a label that was never defined resolved to {got} "
                                        f"(defined: {[x['label'] for x in m.values()]})", "undefined")
                return
            continue
        if got is None:
            res.fail("LABEL_MATCH", f"use {para!r} did not resolve although {d['text']!r} defines it "
                                    f"(model key {key!r})", "unresolved:" + u["vk"])
            return
        if key in seeded_keys:
            resolved_from_seed += 1
        if u["vk"] == "case":
            res.count("label_case_variant_resolved")
        elif u["vk"] == "ws":
            res.count("label_whitespace_variant_resolved")
        if d["simple"]:
            if got[1] != d["href"] + suffix or (got[2] or "") != d["title_txt"]:
                res.fail("FIRST_WINS", f"use {para!r} resolved to href={got[1]!r} title={got[2]!r} but the first "
                                       f"definition of the label is {d['text']!r}", "wrong-target")
                return
        # pure-input clause: the reference form renders exactly as the inline form
        if u["form"] in ("full", "image"):
            inline_src = ("!" if u["form"] == "image" else "") + f"[t]({d['dest']}{' ' if d['title'] else ''}{d['title']})\n"
            a = md.render(para + "\n", env)
            b = md.render(inline_src, mk())
            res.count("inline_form_compared")
            if a != b:
                res.fail("REF_VS_INLINE", f"{para!r} with {d['text']!r} renders {a!r} but the inline form "
                                          f"{inline_src!r} renders {b!r}", "render")
                return
    res.nontrivial = resolved_from_seed > 0


class C16(Engine):
    prop = "C16"
    level = "exploration"
    rule = ("seeded histories: 1-4 definition blocks (1-4 definitions each; labels over a vetted non-ASCII alphabet with "
            "case/whitespace variants and deliberate duplicates; plain or escaped/entity/angle destinations; titles in three "
            "quote styles, possibly on the next line) parsed in order into 1-2 caller-owned envs (dict or UserDict) by 1-2 "
            "identically configured instances, some blocks twice; then a generated probe document extended with isolated "
            "use paragraphs per label variant. Instances may have a past (parsed these definitions before into throw-away envs), "
            "a reassigned link hook, the reference rule re-registered with terminator chains (definition directly under "
            "paragraph text), a container plugin parsing part of a block as a nested sub-document on the same env. Non-trivial = the probe resolves at least one link/image from a SEEDED "
            "definition; distinct = distinct event-log digests among those.")
    assumptions = ["labels use an alphabet on which lower().upper() and casefold() agree (checked per pair; disagreeing "
                   "pairs are discarded and counted)", "inline_definitions is off; reference, link and image rules are on",
                   "the reference-form == inline-form clause is plain generated-input checking (no history in it)"]
    components = {"real": ["all of markdown_it", "mdurl"], "harness_supplied": ["envs (dict / UserDict)", "documents"],
                  "stub": [], "simulated": ["the history of parses that wrote into the caller-owned env before the probe"]}
    expected_probes = ["seeded_twice", "label_case_variant_resolved", "label_whitespace_variant_resolved",
                       "duplicate_in_D_of_seeded_label", "multiline_definition", "userdict_env", "two_instances_one_env",
                       "inline_form_compared", "instances_with_a_past", "link_hook_reassigned_before_history",
                       "reference_rule_reregistered_with_alt", "definition_directly_under_paragraph_text",
                       "definitions_inside_nested_subdocument_container", "definitions_inside_blockquote_or_list_item",
                       "label_used_before_defined", "callers_references_table_handed_to_a_new_env"]

    def budget(self, tier):
        if tier == "quick":
            return {"runs": 60_000, "wall_s": 110, "selftest_samples": 24}
        return {"runs": 3_000_000, "wall_s": 1800, "selftest_samples": 48}

    def warmup(self):
        from markdown_it import MarkdownIt
        MarkdownIt("js-default").enable(["replacements", "smartquotes"]).render(
            "# a\n\n*b* `c` [d](/e) ![f](/g) <h> &amp; \\* \"q\" --\n\n> - x\n\n| a |\n|---|\n| b |\n\n[r]: /u\n")

    def gen(self, rng, i, tier):
        return gen(rng, tier)

    def execute(self, rec):
        res = RunResult()
        execute(rec, res)
        return res

    def shrink_steps(self, rec):
        hist = rec["hist"]
        for j in range(len(hist)):
            yield {**rec, "hist": hist[:j] + hist[j + 1:]}
        p = rec["probe"]
        for j in range(len(p["uses"])):
            yield {**rec, "probe": {**p, "uses": p["uses"][:j] + p["uses"][j + 1:]}}
        if p["redefine"]:
            yield {**rec, "probe": {**p, "redefine": None}}
        for simple in ["a\n"] + docgen.LADDER:
            if len(simple) < len(p["doc"]):
                yield {**rec, "probe": {**p, "doc": simple}}
        for b, defs in enumerate(rec["blocks"]):
            if len(defs) > 1:
                for j in range(len(defs)):
                    nb = copy.deepcopy(rec["blocks"])
                    nb[b] = defs[:j] + defs[j + 1:]
                    yield {**rec, "blocks": nb}
        base = {"preset": "commonmark", "options": {"linkify": False, "inline_definitions": False}, "enable": [], "disable": []}
        if rec["cfg"] != base:
            yield {**rec, "cfg": base}
        if rec["env_type"] != "dict":
            yield {**rec, "env_type": "dict"}
        if rec.get("pre_uses"):
            yield {**rec, "pre_uses": False}
        pre = rec.get("pre") or {}
        for key, simple in (("warm", False), ("nl_suffix", None)):
            if pre.get(key) != simple:
                yield {**rec, "pre": {**pre, key: simple}}
        if pre.get("ref_alt") is not None and not any(rec.get("leads") or []):
            yield {**rec, "pre": {**pre, "ref_alt": None}}
        if any(rec.get("kinds") or []):
            yield {**rec, "kinds": [None] * len(rec["blocks"])}
        if pre.get("container") and rec.get("wraps"):
            for b, k in enumerate(rec["wraps"]):
                if k is not None:
                    yield {**rec, "wraps": rec["wraps"][:b] + [None] + rec["wraps"][b + 1:]}
        if rec["n_inst"] > 1:
            yield {**rec, "n_inst": 1, "hist": [[0, e, b] for _, e, b in hist], "probe": {**p, "inst": 0}}
        if rec["n_env"] > 1:
            yield {**rec, "n_env": 1, "hist": [[i, 0, b] for i, _, b in hist], "probe": {**p, "env": 0}}


ENGINE = C16()
