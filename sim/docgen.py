"""Workload: seeded generator of small Markdown documents and of instance configurations.

Workload only - no oracle depends on how a document *should* render (DESIGN.md 2.3).
"""

from __future__ import annotations

import random

WORDS = ["alpha", "beta", "gamma", "delta", "foo", "bar", "baz", "qux", "x", "yz", "Lorem", "ipsum",
         "1", "42", "a_b", "snake_case", "CamelCase", "üñï", "日本", "don't", "it's"]
LABELS = ["foo", "Foo", "bar", "a b", "A  B", "baz", "ÄÖ", "äö", "x1", "ref"]
URLS = ["/u", "/url", "http://example.com/", "https://a.b/c?d=e&f=g", "<a b>", "<>", "#frag",
        "mailto:x@y.z", "/a(b)c", "/p%20q", "/é", "javascript:alert(1)", "/back\\*slash", "/ent&amp;ity"]
TITLES = ['"t"', "'single'", "(paren)", '"with \\"esc\\""', '"multi\nline"', '"&copy; ent"', '""']
ENTITIES = ["&amp;", "&copy;", "&#35;", "&#x22;", "&nbsp;", "&notanentity;", "&#0;", "&ouml;"]
HTML_INLINE = ["<b>", "</b>", "<br/>", "<a href=\"x\">", "</a>", "<!-- c -->", "<?php ?>", "<x-y a='1'>"]
HTML_BLOCKS = ["<div>\nhi\n</div>", "<pre>\n*x*\n\nstill\n</pre>", "<!-- comment\nmore -->",
               "<script>\nvar a;\n</script>", "<?php\necho 1;\n?>", "<table><tr><td>\nc\n</td></tr></table>",
               "<DIV CLASS=\"foo\">", "</div>\n*foo*", "<a href=\"x\">\n*bar*\n</a>"]
TYPO = ['"quoted"', "'single'", "a -- b", "a --- b", "wait...", "(c) (tm) (r)", "+-1", "what????", "hm!!!!", "a,, b",
        '"\'nested\' q"', "it's"]
AUTOLINKS = ["<http://a.b/c>", "<mailto:me@x.org>", "<me@x.org>", "<https://x.y/?q=1&r=2>", "<not a link>",
             "<javascript:x>"]
LANGS = ["", "python", "js extra attrs", "c++", "&amp;", "a\\*b", "~x"]


def word(rng: random.Random) -> str:
    return rng.choice(WORDS)


def words(rng: random.Random, lo=1, hi=4) -> str:
    return " ".join(word(rng) for _ in range(rng.randint(lo, hi)))


def inline(rng: random.Random, depth: int = 0, allow_break: bool = True) -> str:
    """One inline fragment (may contain '\n' only when allow_break)."""
    n = rng.randint(1, 4)
    parts = []
    for _ in range(n):
        k = rng.randrange(26 if depth < 3 else 12)
        if k < 4:
            parts.append(words(rng))
        elif k == 4:
            parts.append(rng.choice(ENTITIES))
        elif k == 5:
            parts.append("\\" + rng.choice("*_`[]()!#\\<>&\"'~|-+.a "))
        elif k == 6:
            t = rng.choice(["`", "``", "```"])
            body = rng.choice(["code", " c ", "a`b" if t != "`" else "ab", "*x*", "<b>", "&amp;", " ", "a  b"])
            parts.append(t + body + t)
        elif k == 7:
            parts.append(rng.choice(["`unclosed", "``a`", "```", "` `` `"]))
        elif k == 8:
            parts.append(rng.choice(HTML_INLINE))
        elif k == 9:
            parts.append(rng.choice(AUTOLINKS))
        elif k == 10:
            parts.append(rng.choice(TYPO))
        elif k == 11:
            parts.append(rng.choice(["*", "**", "_", "__", "~~", "***", "[", "]", "![", "](", ")", "<", "&", "~"]))
        elif k in (12, 13):
            m = rng.choice(["*", "**", "_", "__", "***", "~~"])
            parts.append(m + inline(rng, depth + 1, False) + m)
        elif k in (14, 15):
            dest = rng.choice(URLS)
            title = (" " + rng.choice(TITLES)) if rng.random() < 0.4 else ""
            parts.append("[" + inline(rng, depth + 1, False) + "](" + dest + title + ")")
        elif k == 16:
            dest = rng.choice(URLS)
            title = (" " + rng.choice(TITLES)) if rng.random() < 0.3 else ""
            parts.append("![" + inline(rng, depth + 1, False) + "](" + dest + title + ")")
        elif k in (17, 18):
            lab = rng.choice(LABELS)
            form = rng.randrange(4)
            if form == 0:
                parts.append("[" + inline(rng, depth + 1, False) + "][" + lab + "]")
            elif form == 1:
                parts.append("[" + lab + "][]")
            elif form == 2:
                parts.append("[" + lab + "]")
            else:
                parts.append("![" + words(rng, 1, 2) + "][" + lab + "]")
        elif k == 19 and allow_break:
            parts.append(rng.choice(["\n", "  \n", "\\\n", " \n "]))
        elif k == 20:
            parts.append("[" * rng.randint(2, 5) + word(rng) + "]" * rng.randint(1, 5) + rng.choice(["", "(/u)", "[foo]"]))
        elif k == 21:
            parts.append(rng.choice(["*a **b* c**", "**a *b** c*", "_a*b_c*", "*a_b*c_", "~~a *b~~ c*", "a*b*c", "a_b_c",
                                     "***a** b*", "*(*a*)*", "**a", "a**"]))
        elif k == 22:
            parts.append("![" + rng.choice(["a ![b](/i) c", "*e* `c`", "[l](/x)", ""]) + "](/img" + rng.choice(["", ' "T"']) + ")")
        else:
            parts.append(words(rng))
    sep = rng.choice([" ", " ", "", " "])
    return sep.join(parts)


def paragraph(rng: random.Random) -> str:
    lines = [inline(rng) for _ in range(rng.randint(1, 3))]
    return "\n".join(lines)


def definition(rng: random.Random) -> str:
    lab = rng.choice(LABELS)
    dest = rng.choice(URLS)
    title = ""
    if rng.random() < 0.5:
        title = rng.choice([" ", "\n  ", "  "]) + rng.choice(TITLES)
    sep = rng.choice([" ", "\n ", "   "])
    return "[" + lab + "]:" + sep + dest + title


def block(rng: random.Random, depth: int = 0) -> str:
    """One top-level-ish block without trailing newline."""
    k = rng.randrange(22 if depth < 3 else 12)
    if k < 4:
        return paragraph(rng)
    if k == 4:
        return "#" * rng.randint(1, 7) + " " + inline(rng, 1, False) + rng.choice(["", " #", " ##  "])
    if k == 5:
        return inline(rng, 1, rng.random() < 0.3) + "\n" + rng.choice(["===", "---", "=", "--  "])
    if k == 6:
        return rng.choice(["---", "***", "_ _ _", " * * *", "- - -", "___"])
    if k == 7:
        f = rng.choice(["```", "~~~", "````", "~~~~"])
        body = "\n".join(rng.choice(["code line", "  indented", "", "*not em*", "<b>", "```" if f[0] == "~" else "~~~",
                                     "[foo]: /x"]) for _ in range(rng.randint(0, 3)))
        close = f if rng.random() < 0.85 else ""
        return f + rng.choice(LANGS) + "\n" + body + ("\n" if body else "") + close
    if k == 8:
        return "\n".join("    " + rng.choice(["code", "  more", "*x*", "<i>", "\tt"]) for _ in range(rng.randint(1, 3)))
    if k == 9:
        return rng.choice(HTML_BLOCKS)
    if k == 10:
        return "\n".join(definition(rng) for _ in range(rng.randint(1, 2)))
    if k == 11:
        cols = rng.randint(1, 3)
        head = "| " + " | ".join(inline(rng, 2, False).replace("|", "/") for _ in range(cols)) + " |"
        sep = "|" + "|".join(rng.choice(["---", ":--", "--:", ":-:"]) for _ in range(cols)) + "|"
        rows = ["| " + " | ".join(rng.choice([word(rng), "`a\\|b`", "*e*", "", "x \\| y"])
                                  for _ in range(rng.randint(1, cols + 1))) + " |" for _ in range(rng.randint(0, 2))]
        return "\n".join([head, sep] + rows)
    if k in (12, 13, 14):  # block quote
        inner = document(rng, rng.randint(1, 2), depth + 1).rstrip("\n")
        lines = inner.split("\n")
        lazy = rng.random() < 0.25
        out = []
        for j, ln in enumerate(lines):
            if lazy and j > 0 and ln and ln[0].isalnum() and lines[j - 1].strip():
                out.append(ln)
            else:
                out.append(rng.choice([">", "> ", "> ", " > "]) + ln if ln else ">")
        return "\n".join(out)
    if k in (15, 16, 17, 18):  # list
        ordered = rng.random() < 0.4
        marker = rng.choice(["1.", "2)", "10.", "0."]) if ordered else rng.choice(["-", "*", "+"])
        loose = rng.random() < 0.3
        items = []
        for _ in range(rng.randint(1, 3)):
            inner = document(rng, rng.randint(1, 2), depth + 1).rstrip("\n") if rng.random() < 0.4 else paragraph(rng)
            pad = " " * (len(marker) + 1)
            ls = inner.split("\n")
            first = marker + " " + ls[0]
            rest = [(pad + ln if ln else "") for ln in ls[1:]]
            items.append("\n".join([first] + rest))
        return ("\n\n" if loose else "\n").join(items)
    if k == 19:
        return rng.choice(["- \n  foo", "-\n\n  foo", "1. a\n\n   b\n2. c", "- a\n  - b\n    - c\n  - d", "* a\n*\n* c",
                           "> - a\n> - b\n>\n> c", "- > q\n  > r\n- s", "10) x\n    y\n\n        code"])
    if k == 20:
        return inline(rng, 1) + "\n" + definition(rng)  # definition cannot interrupt a paragraph
    return paragraph(rng)


def document(rng: random.Random, max_blocks: int = 4, depth: int = 0) -> str:
    n = rng.randint(1, max_blocks)
    out = []
    for _ in range(n):
        out.append(block(rng, depth))
        out.append(rng.choice(["\n\n", "\n\n", "\n", "\n\n\n"]))
    return "".join(out)


def inline_source(rng: random.Random) -> str:
    return inline(rng, 0, rng.random() < 0.3)


LADDER = ["a\n", "*a*\n", "[a]\n\n[a]: /u\n", "- a\n- b\n", "> a\n", "`c` *e* [l](/u)\n", "# h\n\np\n"]

# --------------------------------------------------------------------------- configurations
CORE_OPTIONAL = ["replacements", "smartquotes"]
BLOCK_OPTIONAL = ["table", "code", "fence", "blockquote", "hr", "list", "reference", "html_block", "heading", "lheading"]
INLINE_OPTIONAL = ["newline", "escape", "backticks", "strikethrough", "emphasis", "link", "image", "autolink",
                   "html_inline", "entity"]
PRESETS = ["commonmark", "js-default", "zero", "gfm-like", "default"]


def config(rng: random.Random, rich: bool = False) -> dict:
    """A JSON-able instance configuration. linkify is always forced off (linkify-it-py is absent)."""
    preset = rng.choice(PRESETS if not rich else ["commonmark", "js-default", "gfm-like", "js-default"])
    opts: dict = {"linkify": False}
    if rng.random() < 0.5:
        for key, vals in (("html", [True, False]), ("typographer", [True, False]), ("breaks", [True, False]),
                          ("xhtmlOut", [True, False]), ("langPrefix", ["language-", "lang-", ""]),
                          ("quotes", ["“”‘’", "«»‹›", ["<<", ">>", "<", ">"]]),
                          ("maxNesting", [1, 2, 3, 5, 20, 100]),
                          ("inline_definitions", [True, False]), ("store_labels", [True, False])):
            if rng.random() < 0.3:
                opts[key] = rng.choice(vals)
    enable, disable = [], []
    if rng.random() < 0.5:
        pool = CORE_OPTIONAL + BLOCK_OPTIONAL + INLINE_OPTIONAL
        for name in pool:
            r = rng.random()
            if r < 0.12:
                disable.append(name)
            elif r < 0.24:
                enable.append(name)
    return {"preset": preset, "options": opts, "enable": enable, "disable": disable}


def build(cfg: dict):
    from markdown_it import MarkdownIt

    md = MarkdownIt(cfg["preset"], dict(cfg["options"]))
    if cfg.get("enable"):
        md.enable(list(cfg["enable"]))
    if cfg.get("disable"):
        md.disable(list(cfg["disable"]))
    return md
