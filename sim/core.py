"""Common machinery: seeds, import seam, batch driver, confirmation, minimisation,
replay files, known findings, evidence.  See DESIGN.md section 2.

Nothing in here draws from a PRNG except `run_rng`, and nothing inside a run reads a clock.
"""

from __future__ import annotations

import hashlib
import json
import os
import random
import signal
import subprocess
import sys
import time
import traceback
from concurrent.futures import ProcessPoolExecutor
from concurrent.futures.process import BrokenProcessPool
import multiprocessing

VERIF_DIR = os.path.dirname(os.path.dirname(os.path.abspath(__file__)))
# VERIF_OUT redirects what a run writes (mutant/seeded self-tests must not touch the committed evidence)
_OUT = os.environ.get("VERIF_OUT", VERIF_DIR)
REPLAY_DIR = os.path.join(_OUT, "replays")
EVIDENCE_DIR = os.path.join(_OUT, "evidence")
KNOWN_FINDINGS = os.path.join(VERIF_DIR, "known_findings.json")
CHECK = os.path.join(VERIF_DIR, "check")
REPLAY_FORMAT = 1
LOCK_SEAM_REFS = 0

EXIT_OK, EXIT_VIOLATION, EXIT_HARNESS, EXIT_INCONCLUSIVE = 0, 1, 2, 3


# --------------------------------------------------------------------------- import seam
def repo_path() -> str:
    return os.path.realpath(os.environ.get("VERIF_REPO", "/repo"))


def bootstrap_import() -> None:
    """Make `import markdown_it` resolve to $VERIF_REPO's working tree, nothing cached."""
    sys.dont_write_bytecode = True
    rp = repo_path()
    if sys.path[0] != rp:
        sys.path.insert(0, rp)
    # stdlib/dependency modules the library uses are imported first so that their own locks stay real;
    # then markdown_it is imported behind the scheduler's lock seam (DESIGN.md section 3, "Locks")
    import argparse, collections, contextlib, dataclasses, functools, html, inspect, logging, re  # noqa: F401,E401
    import textwrap, typing, urllib.parse, warnings, pathlib, mdurl  # noqa: F401,E401
    from . import sched
    global LOCK_SEAM_REFS
    LOCK_SEAM_REFS = sched.import_library_with_lock_seam()
    import markdown_it  # noqa: F401

    f = os.path.realpath(markdown_it.__file__)
    if not f.startswith(rp + os.sep):
        raise HarnessError(f"markdown_it imported from {f}, not from {rp}")


class HarnessError(Exception):
    """A defect of the harness (never a finding)."""


class RunTimeout(BaseException):
    """Wall-clock guard of one run (non-scheduled engines only; 1000x margin)."""


# --------------------------------------------------------------------------- seeds
def run_rng(prop: str, seed: int, i: int) -> random.Random:
    h = hashlib.sha256(f"{prop}|{seed}|{i}".encode()).hexdigest()
    return random.Random(int(h[:16], 16))


def digest(obj) -> str:
    return hashlib.sha256(
        json.dumps(obj, sort_keys=True, ensure_ascii=True, default=_json_default).encode()
    ).hexdigest()


def _json_default(o):
    if isinstance(o, (set, frozenset)):
        return sorted(o)
    if isinstance(o, tuple):
        return list(o)
    return repr(o)


# --------------------------------------------------------------------------- results
class RunResult:
    """What executing one run record produced."""

    __slots__ = ("events", "violation", "counters", "nontrivial", "steps", "sets")

    def __init__(self):
        self.events: list = []          # ordered event log (JSON-able, no ids/addresses)
        self.violation: dict | None = None  # {"cls":..., "msg":..., "site":...}
        self.counters: dict[str, int] = {}  # faults fired / probes
        self.nontrivial: bool = False
        self.steps: int = 0             # scheduler / op steps
        self.sets: dict[str, set] = {}  # reach measures: name -> set of hashable strings

    def count(self, name: str, n: int = 1) -> None:
        self.counters[name] = self.counters.get(name, 0) + n

    def reach(self, name: str, item: str) -> None:
        self.sets.setdefault(name, set()).add(item)

    def fail(self, cls: str, msg: str, site: str = "") -> None:
        if self.violation is None:  # first violation of a run decides its class
            self.violation = {"cls": cls, "msg": msg[:2000], "site": site}

    def digest(self) -> str:
        return digest({"events": self.events, "violation": self.violation})


class Engine:
    """Interface every check module implements."""

    prop = "C00"
    level = "exploration"
    rule = ""
    assumptions: list[str] = []
    components: dict = {}
    timeout_s = 20.0          # per-run wall guard; None => engine is step-budgeted itself
    default_workers = 16
    fresh_candidates = False  # minimiser evaluates every candidate in a fresh interpreter (process-global state is the subject)

    def warmup(self) -> None:  # fixed first-use effects, before the first run of a process
        pass

    def budget(self, tier: str) -> dict:
        raise NotImplementedError

    def gen(self, rng: random.Random, i: int, tier: str) -> dict:
        raise NotImplementedError

    def execute(self, rec: dict) -> RunResult:
        raise NotImplementedError

    def shrink_steps(self, rec: dict):
        """Yield candidate smaller records (engine specific); default: nothing."""
        return iter(())

    def stable_digest(self, res: "RunResult") -> str:
        """Digest that must also agree under another PYTHONHASHSEED (default: the full digest)."""
        return res.digest()

    def describe(self, rec: dict) -> str:
        return json.dumps(rec, ensure_ascii=True)[:400]


# --------------------------------------------------------------------------- executing one run
def execute_guarded(engine: Engine, rec: dict) -> RunResult:
    """Execute with the per-run wall guard; harness exceptions propagate as HarnessError."""
    use_alarm = engine.timeout_s is not None and hasattr(signal, "setitimer")
    if use_alarm:
        def _on_alarm(signum, frame):
            raise RunTimeout()
        old = signal.signal(signal.SIGALRM, _on_alarm)
        signal.setitimer(signal.ITIMER_REAL, engine.timeout_s)
    try:
        try:
            if "sequence" in rec:  # a worker's sequence of runs (cross-run pollution replay)
                res = None
                for sub in rec["sequence"]:
                    res = engine.execute(sub)
                return res
            return engine.execute(rec)
        except RunTimeout:
            r = RunResult()
            r.events.append(["HANG"])
            r.fail("HANG", f"run did not finish within {engine.timeout_s}s wall-clock "
                           "(normal runs take milliseconds)", "wall-guard")
            return r
    finally:
        if use_alarm:
            signal.setitimer(signal.ITIMER_REAL, 0)
            signal.signal(signal.SIGALRM, old)


# --------------------------------------------------------------------------- worker
_ENGINE: Engine | None = None


def _worker(args):
    (prop, seed, tier, w, W, lo, hi, known_open, max_fail, deadline, sample_every) = args
    import faulthandler

    eng = _ENGINE
    assert eng is not None and eng.prop == prop
    # last-resort watchdog: a worker that is stuck for good kills itself (=> INCONCLUSIVE)
    faulthandler.dump_traceback_later(max(60.0, deadline - time.time() + 120.0), exit=True)
    agg = {
        "evaluations": 0, "nontrivial": set(), "counters": {}, "sets": {}, "steps": 0,
        "samples": [], "failures": [], "known_hits": {}, "stopped_early": False,
        "digests": {}, "last_index": None,
    }
    nfail = 0
    for i in range(lo + w, hi, W):
        if time.time() > deadline:
            agg["stopped_early"] = True
            break
        rng = run_rng(prop, seed, i)
        rec = eng.gen(rng, i, tier)
        res = execute_guarded(eng, rec)
        agg["evaluations"] += 1
        agg["last_index"] = i
        agg["steps"] += res.steps
        for k, v in res.counters.items():
            agg["counters"][k] = agg["counters"].get(k, 0) + v
        for k, s in res.sets.items():
            agg["sets"].setdefault(k, set()).update(s)
        d = res.digest()
        if res.nontrivial:
            agg["nontrivial"].add(d[:16])
        if sample_every and (i % sample_every == 0):
            agg["digests"][i] = [d, eng.stable_digest(res)]
        if len(agg["samples"]) < 2 and res.nontrivial:
            agg["samples"].append({"run_index": i, "record": rec})
        if res.violation is not None:
            kf = match_known(known_open, prop, res.violation)
            if kf is not None:
                agg["known_hits"][kf] = agg["known_hits"].get(kf, 0) + 1
                continue
            agg["failures"].append({"run_index": i, "record": rec, "violation": res.violation,
                                    "digest": d, "worker": w, "workers": W})
            nfail += 1
            if nfail >= max_fail:
                agg["stopped_early"] = True
                break
    faulthandler.cancel_dump_traceback_later()
    agg["nontrivial"] = sorted(agg["nontrivial"])
    agg["sets"] = {k: sorted(v) for k, v in agg["sets"].items()}
    return agg


# --------------------------------------------------------------------------- known findings
def load_known() -> list[dict]:
    if not os.path.exists(KNOWN_FINDINGS):
        return []
    with open(KNOWN_FINDINGS) as f:
        return json.load(f).get("findings", [])


def match_known(known_open: list[dict], prop: str, violation: dict) -> int | None:
    """Index of the open known finding this violation is an instance of, else None.
    Matching is on property + violation class + site (exact strings)."""
    for k, e in enumerate(known_open):
        if e["property"] == prop and e["class"] == violation["cls"] and e["site"] == violation["site"]:
            return k
    return None


# --------------------------------------------------------------------------- fresh-interpreter helpers
def _child_env(hashseed: str) -> dict:
    env = dict(os.environ)
    env["PYTHONHASHSEED"] = str(hashseed)
    env["VERIF_CHILD"] = "1"
    return env


def fresh_exec(prop: str, rec: dict, hashseed: str, timeout: float = 600.0) -> dict:
    """Execute one record in a fresh interpreter; returns {"violation":..., "digest":...}."""
    os.makedirs(os.path.join(VERIF_DIR, "tmp"), exist_ok=True)
    path = os.path.join(VERIF_DIR, "tmp", f"rec-{os.getpid()}-{digest(rec)[:12]}.json")
    with open(path, "w") as f:
        json.dump(rec, f)
    try:
        p = subprocess.run([sys.executable, CHECK, prop, "--exec-record", path],
                           env=_child_env(hashseed), capture_output=True, text=True, timeout=timeout)
        if p.returncode != 0:
            raise HarnessError(f"fresh exec failed rc={p.returncode}: {p.stderr[-2000:]}")
        return json.loads(p.stdout.strip().splitlines()[-1])
    finally:
        try:
            os.unlink(path)
        except OSError:
            pass


def fresh_digests(prop: str, seed: int, tier: str, indices: list[int], hashseed: str,
                  timeout: float = 900.0) -> dict[int, list]:
    p = subprocess.run([sys.executable, CHECK, prop, "--digests", ",".join(map(str, indices)),
                        "--tier", tier],
                       env={**_child_env(hashseed), "VERIF_SEED": str(seed)},
                       capture_output=True, text=True, timeout=timeout)
    if p.returncode != 0:
        raise HarnessError(f"fresh digests failed rc={p.returncode}: {p.stderr[-2000:]}")
    out = json.loads(p.stdout.strip().splitlines()[-1])
    return {int(k): v for k, v in out.items()}


# --------------------------------------------------------------------------- minimisation
def ddmin_list(items: list, test, budget: list[int]) -> list:
    """Classic ddmin on a list; `test(sub)` is True while the failure persists."""
    n = 2
    while len(items) >= 2 and budget[0] > 0:
        chunk = max(1, len(items) // n)
        subsets = [items[k:k + chunk] for k in range(0, len(items), chunk)]
        reduced = False
        for k in range(len(subsets)):
            if budget[0] <= 0:
                break
            comp = [x for j, s in enumerate(subsets) if j != k for x in s]
            budget[0] -= 1
            if test(comp):
                items = comp
                n = max(n - 1, 2)
                reduced = True
                break
        if not reduced:
            if n >= len(items):
                break
            n = min(len(items), n * 2)
    if len(items) == 1 and budget[0] > 0:
        budget[0] -= 1
        if test([]):
            return []
    return items


def minimise(engine: Engine, rec: dict, violation: dict, max_exec: int = 400, hashseed: str = "0") -> dict:
    """Greedy fix-point over the engine's candidate stream, same violation class required."""
    cls = violation["cls"]
    budget = max_exec if cls != "HANG" else 12     # every candidate of a hanging run costs the full wall guard
    if engine.fresh_candidates:
        budget = min(budget, 150)

    cur = rec
    progress = True
    while progress and budget > 0:
        progress = False
        for cand in engine.shrink_steps(cur):
            if budget <= 0:
                break
            budget -= 1
            try:
                if engine.fresh_candidates:
                    # what an earlier candidate left in this process must not make a later one "fail"
                    v = fresh_exec(engine.prop, cand, hashseed, timeout=120.0)["violation"]
                else:
                    v = execute_guarded(engine, cand).violation
            except (HarnessError, subprocess.TimeoutExpired):
                continue
            except Exception:
                continue
            if v is not None and v["cls"] == cls:
                cur = cand
                progress = True
                break
    return cur


# --------------------------------------------------------------------------- replay files
def write_replay(engine: Engine, seed: int, fail: dict, minimised: dict, res: RunResult,
                 hashseed: str) -> str:
    os.makedirs(REPLAY_DIR, exist_ok=True)
    path = os.path.join(REPLAY_DIR, f"{engine.prop}-{seed}-{fail['run_index']}.json")
    doc = {
        "format": REPLAY_FORMAT,
        "property": engine.prop,
        "violation_class": res.violation["cls"],
        "site": res.violation["site"],
        "message": res.violation["msg"],
        "seed": seed,
        "run_index": fail["run_index"],
        "worker": [fail.get("worker"), fail.get("workers")],
        "pythonhashseed": hashseed,
        "python": sys.version.split()[0],
        "run": minimised,
        "original_run": fail["record"],
        "event_digest": res.digest(),
        "events": res.events[:200],
        "how_to_replay": f"./check {engine.prop} --replay {path}",
    }
    with open(path, "w") as f:
        json.dump(doc, f, indent=1, ensure_ascii=True, default=_json_default)
    return path


def do_replay(engine: Engine, path: str) -> int:
    with open(path) as f:
        doc = json.load(f)
    if doc.get("format") != REPLAY_FORMAT or doc.get("property") != engine.prop:
        print(f"HARNESS-ERROR: {path} is not a replay file for {engine.prop}")
        return EXIT_HARNESS
    engine.warmup()
    res = execute_guarded(engine, doc["run"])
    same_cls = res.violation is not None and res.violation["cls"] == doc["violation_class"]
    same_dig = res.digest() == doc["event_digest"]
    if same_cls:
        print(f"replayed: class={res.violation['cls']} site={res.violation['site']} "
              f"digest_match={same_dig}")
        print(res.violation["msg"])
        print(f"VIOLATION property={engine.prop} replay={path}")
        return EXIT_VIOLATION
    print(f"NOT-REPRODUCED property={engine.prop} replay={path} "
          f"(now: {res.violation['cls'] if res.violation else 'no violation'})")
    return EXIT_OK


# --------------------------------------------------------------------------- batch driver
def run_check(engine: Engine, tier: str, seed: int, hashseed: str) -> int:
    global _ENGINE
    t0 = time.time()
    b = engine.budget(tier)
    n_runs = int(os.environ.get("VERIF_RUNS", b["runs"]))
    wall = float(os.environ.get("VERIF_WALL", b["wall_s"]))
    W = int(os.environ.get("VERIF_WORKERS", engine.default_workers))
    W = max(1, min(W, n_runs))
    # Engines whose runs do not depend on what the process executed before (they reset process-global state per run) may
    # split the batch into more static partitions than processes; the pool hands partitions to whichever process is free,
    # so a few expensive runs no longer decide the wall time.  A partition is still a fixed sequence (v, V): failures
    # are confirmed and replayed exactly as before.
    V = max(W, min(int(getattr(engine, "virtual_workers", 0) or 0), n_runs)) if W > 1 else W
    deadline = t0 + wall
    known = load_known()
    known_open = [e for e in known if e.get("status") == "open" and e["property"] == engine.prop]
    sample_every = max(1, n_runs // b.get("selftest_samples", 24))

    print(f"[{engine.prop}] tier={tier} VERIF_SEED={seed} runs={n_runs} workers={W} partitions={V} "
          f"PYTHONHASHSEED={hashseed} repo={repo_path()}", flush=True)

    engine.warmup()
    _ENGINE = engine
    ctx = multiprocessing.get_context("fork")
    aggs = []
    inconclusive = None
    try:
        with ProcessPoolExecutor(max_workers=W, mp_context=ctx) as ex:
            jobs = [(engine.prop, seed, tier, v, V, 0, n_runs, known_open, 5, deadline, sample_every)
                    for v in range(V)]
            for a in ex.map(_worker, jobs):
                aggs.append(a)
    except BrokenProcessPool as e:
        inconclusive = f"a worker died (watchdog or crash): {e}"

    # ---- merge
    ev = sum(a["evaluations"] for a in aggs)
    nontrivial = set()
    counters: dict[str, int] = {}
    sets: dict[str, set] = {}
    samples, failures, digests = [], [], {}
    known_hits: dict[int, int] = {}
    steps = 0
    stopped_early = False
    for a in aggs:
        nontrivial.update(a["nontrivial"])
        for k, v in a["counters"].items():
            counters[k] = counters.get(k, 0) + v
        for k, s in a["sets"].items():
            sets.setdefault(k, set()).update(s)
        samples.extend(a["samples"])
        failures.extend(a["failures"])
        digests.update(a["digests"])
        steps += a["steps"]
        stopped_early = stopped_early or a["stopped_early"]
        for k, v in a["known_hits"].items():
            known_hits[k] = known_hits.get(k, 0) + v
    failures.sort(key=lambda f: f["run_index"])
    batch_wall = time.time() - t0

    rc = EXIT_OK
    violations_reported = []
    harness_msgs = []

    # ---- confirm + minimise + replay (distinct class/site keys, earliest run of each)
    seen_keys = set()
    for f in failures:
        key = (f["violation"]["cls"], f["violation"]["site"])
        if key in seen_keys or len(seen_keys) >= 3:
            continue
        seen_keys.add(key)
        try:
            conf = fresh_exec(engine.prop, f["record"], hashseed)
        except (HarnessError, subprocess.TimeoutExpired) as e:
            harness_msgs.append(f"confirmation of run {f['run_index']} failed: {e}")
            continue
        if conf["violation"] is None or conf["violation"]["cls"] != f["violation"]["cls"]:
            # depends on what the worker executed before: replay the worker's sequence
            seq = confirm_by_sequence(engine, seed, tier, f, hashseed)
            if seq is None:
                harness_msgs.append(
                    f"run {f['run_index']} failed in worker {f['worker']}/{f['workers']} with "
                    f"{f['violation']['cls']} but neither the run alone nor the worker's sequence "
                    f"reproduces it in a fresh interpreter")
                continue
            path = seq
        else:
            path = minimise_and_write(engine, seed, f, hashseed)
        violations_reported.append((f, path))

    det = None
    if not violations_reported and not harness_msgs and inconclusive is None:
        det = determinism_selftest(engine, seed, tier, digests, hashseed, b)
        if det["mismatches"]:
            harness_msgs.append(f"determinism self-test mismatch: {det['mismatches'][:3]}")

    # ---- evidence
    wall_s = time.time() - t0
    kf_lines = []
    for k, e in enumerate(known_open):
        kf_lines.append(f"KNOWN-FINDING: property={engine.prop} {e['what']} "
                        f"[class={e['class']} site={e['site']} hits_this_run={known_hits.get(k, 0)}]")
    zero_probes = [k for k in getattr(engine, "expected_probes", []) if counters.get(k, 0) == 0]
    cov = {
        "evaluations": ev,
        "distinct_nontrivial": len(nontrivial),
        "rule": engine.rule,
        "samples": samples[:4],
        "exhaustive": False,
        "runs_requested": n_runs,
        "run_index_range": [0, n_runs],
        "stopped_early": stopped_early,
        "runs_per_hour": int(ev / max(batch_wall, 1e-6) * 3600),
        "seeds_per_hour": "one base seed per batch; every run index is an independent PRNG stream "
                          "(sha256(prop|seed|index)), i.e. runs_per_hour independent seeds per hour",
        "sim_steps": steps,
        "simulated_time": "none: the library has no clock, timer or I/O; reach is reported in steps",
        "faults_and_probes": dict(sorted(counters.items())),
        "probes_stuck_at_zero": zero_probes,
        "reach": {k: len(v) for k, v in sorted(sets.items())},
        "components": engine.components,
        "workers": W,
        "partitions": V,
        "pythonhashseed": hashseed,
        "determinism_selftest": det,
        "known_findings_open": [e["what"] for e in known_open],
        "known_finding_hits": {known_open[k]["what"]: v for k, v in known_hits.items()},
        "violations": [{"run_index": f["run_index"], "class": f["violation"]["cls"],
                        "site": f["violation"]["site"], "replay": p} for f, p in violations_reported],
        "harness_errors": harness_msgs,
        "inconclusive": inconclusive,
        "repo": repo_path(),
    }
    evidence = {
        "property_id": engine.prop,
        "tier": tier,
        "seed": seed,
        "level": engine.level,
        "coverage": cov,
        "assumptions": engine.assumptions,
        "wall_s": round(wall_s, 2),
        "violations": len(violations_reported),
    }
    os.makedirs(EVIDENCE_DIR, exist_ok=True)
    with open(os.path.join(EVIDENCE_DIR, f"{engine.prop}.json"), "w") as fh:
        json.dump(evidence, fh, indent=1, ensure_ascii=True, default=_json_default)

    # ---- report
    print(f"[{engine.prop}] evaluations={ev} distinct_nontrivial={len(nontrivial)} steps={steps} "
          f"wall={wall_s:.1f}s runs/h={cov['runs_per_hour']}")
    print(f"[{engine.prop}] faults/probes: " + ", ".join(f"{k}={v}" for k, v in sorted(counters.items())))
    print(f"[{engine.prop}] reach: " + ", ".join(f"{k}={len(v)}" for k, v in sorted(sets.items())))
    for z in zero_probes:
        print(f"[{engine.prop}] WARNING probe stuck at zero: {z}")
    if det is not None:
        print(f"[{engine.prop}] determinism self-test: {det['compared']} runs re-executed in a fresh "
              f"interpreter (workers=1, PYTHONHASHSEED={det['hashseeds']}), mismatches={len(det['mismatches'])}")
    for line in kf_lines:
        print(line)
    for f, p in violations_reported:
        print(f"[{engine.prop}] run {f['run_index']}: {f['violation']['cls']} "
              f"site={f['violation']['site']}: {f['violation']['msg'][:300]}")
        print(f"VIOLATION property={engine.prop} replay={p}")
        rc = EXIT_VIOLATION
    if rc == EXIT_OK and harness_msgs:
        for m in harness_msgs:
            print(f"HARNESS-ERROR: {m}")
        rc = EXIT_HARNESS
    if rc == EXIT_OK and inconclusive:
        print(f"INCONCLUSIVE: {inconclusive}")
        rc = EXIT_INCONCLUSIVE
    if rc == EXIT_OK and ev == 0:
        print("HARNESS-ERROR: no run executed")
        rc = EXIT_HARNESS
    return rc


def minimise_and_write(engine: Engine, seed: int, f: dict, hashseed: str, no_minimise: bool = False) -> str:
    """Minimise in a fresh interpreter (so earlier runs cannot help), write the replay file,
    verify that the replay reproduces in yet another fresh interpreter.  If the minimised record does not (what the
    minimiser's process executed before can matter on a tree with process-global state), fall back to the original,
    already confirmed record."""
    os.makedirs(os.path.join(VERIF_DIR, "tmp"), exist_ok=True)
    inp = os.path.join(VERIF_DIR, "tmp", f"min-{os.getpid()}-{f['run_index']}.json")
    with open(inp, "w") as fh:
        json.dump({"seed": seed, "fail": f, "hashseed": hashseed, "no_minimise": no_minimise}, fh)
    try:
        p = subprocess.run([sys.executable, CHECK, engine.prop, "--minimise", inp],
                           env=_child_env(hashseed), capture_output=True, text=True, timeout=1800)
        if p.returncode != 0:
            raise HarnessError(f"minimiser failed rc={p.returncode}: {p.stderr[-2000:]}")
        path = p.stdout.strip().splitlines()[-1]
    finally:
        try:
            os.unlink(inp)
        except OSError:
            pass
    p = subprocess.run([sys.executable, CHECK, engine.prop, "--replay", path],
                       env=_child_env(hashseed), capture_output=True, text=True, timeout=600)
    if p.returncode != EXIT_VIOLATION:
        if not no_minimise:
            return minimise_and_write(engine, seed, f, hashseed, no_minimise=True)
        raise HarnessError(f"replay {path} does not reproduce in a fresh interpreter: {p.stdout[-500:]}")
    return path


def child_minimise(engine: Engine, inp: str) -> int:
    with open(inp) as fh:
        job = json.load(fh)
    f, seed, hashseed = job["fail"], job["seed"], job["hashseed"]
    engine.warmup()
    res0 = execute_guarded(engine, f["record"])
    if res0.violation is None:
        raise HarnessError("minimiser: original record does not fail here")
    if job.get("no_minimise"):
        mini = f["record"]
    else:
        mini = minimise(engine, f["record"], res0.violation, hashseed=hashseed)
    res = execute_guarded(engine, mini) if mini is not f["record"] else res0
    if res.violation is None or res.violation["cls"] != res0.violation["cls"]:
        mini, res = f["record"], res0
    print(write_replay(engine, seed, f, mini, res, hashseed))
    return 0


def confirm_by_sequence(engine: Engine, seed: int, tier: str, f: dict, hashseed: str) -> str | None:
    """The failure did not reproduce alone: replay the worker's whole sequence up to it in a
    fresh interpreter (process-global state is exactly what C12 is about)."""
    p = subprocess.run([sys.executable, CHECK, engine.prop, "--sequence",
                        f"{f['worker']},{f['workers']},{f['run_index']}", "--tier", tier],
                       env={**_child_env(hashseed), "VERIF_SEED": str(seed)},
                       capture_output=True, text=True, timeout=3600)
    if p.returncode != 0:
        return None
    return p.stdout.strip().splitlines()[-1]


def child_sequence(engine: Engine, seed: int, tier: str, spec: str, hashseed: str) -> int:
    w, W, target = map(int, spec.split(","))
    engine.warmup()
    recs = []
    res = None
    for i in range(w, target + 1, W):
        rec = engine.gen(run_rng(engine.prop, seed, i), i, tier)
        recs.append(rec)
        res = execute_guarded(engine, rec)
    if res is None or res.violation is None:
        return 1
    # the replay "run" is the sequence; engines execute {"sequence": [...]} by running all in order
    seqrec = {"sequence": recs}
    r2 = execute_guarded(engine, seqrec)
    if r2.violation is None:
        return 1
    fail = {"run_index": target, "record": seqrec, "worker": w, "workers": W}
    print(write_replay(engine, seed, fail, seqrec, r2, hashseed))
    return 0


def determinism_selftest(engine: Engine, seed: int, tier: str, digests: dict[int, str],
                         hashseed: str, b: dict) -> dict:
    """Re-execute a sample of runs in a fresh single interpreter (worker count 1) under the same and
    (thorough) under another PYTHONHASHSEED; digests must agree with what the pool computed."""
    idx = sorted(digests)[: b.get("selftest_samples", 24)]
    hs = [hashseed] + ([str(int(hashseed) + 1)] if tier == "thorough" or b.get("selftest_two_hashseeds") else [])
    mismatches = []
    for h in hs:
        got = fresh_digests(engine.prop, seed, tier, idx, h)
        k = 0 if h == hashseed else 1   # full digest under the same hash seed, hash-order-stable digest otherwise
        for i in idx:
            if (got.get(i) or [None, None])[k] != digests[i][k]:
                mismatches.append({"run_index": i, "hashseed": h, "pool": digests[i][k][:16],
                                   "fresh": ((got.get(i) or ["", ""])[k] or "")[:16]})
    return {"compared": len(idx) * len(hs), "hashseeds": hs, "mismatches": mismatches}


def child_digests(engine: Engine, seed: int, tier: str, indices: list[int]) -> int:
    engine.warmup()
    out = {}
    for i in reversed(indices):  # a different order than the pool used, on purpose
        rec = engine.gen(run_rng(engine.prop, seed, i), i, tier)
        res = execute_guarded(engine, rec)
        out[i] = [res.digest(), engine.stable_digest(res)]
    print(json.dumps(out))
    return 0


def child_exec_record(engine: Engine, path: str) -> int:
    with open(path) as fh:
        rec = json.load(fh)
    engine.warmup()
    res = execute_guarded(engine, rec)
    print(json.dumps({"violation": res.violation, "digest": res.digest()}))
    return 0
