#!/venv/bin/python
"""Import a sub-agent's seeded change after confirming it independently.

usage: tools/seeded_import.py <worktree> <A|B> <seeded-id> <property> "<what it needs to manifest>"

Confirms in the (scratch) worktree: patch applies to a clean tree; pinned suite passes with it (875 passed);
demo exits non-zero with it and 0 without it.  Only then copies patch.diff, demo.py, README.txt to
/verif/seeded/<id>/ and writes meta.json.  The worktree is left clean.
"""
import json
import os
import shutil
import subprocess
import sys

VERIF = os.path.dirname(os.path.dirname(os.path.abspath(__file__)))


def sh(cmd, cwd):
    return subprocess.run(cmd, cwd=cwd, capture_output=True, text=True,
                          env={**os.environ, "PYTHONDONTWRITEBYTECODE": "1"})


def main():
    wt, ab, sid, prop, needs = sys.argv[1:6]
    src = os.path.join(wt, "_seeded", ab)
    patch = os.path.join(src, "patch.diff")
    demo_src = os.path.join(src, "demo.py")
    demo = os.path.join(wt, "demo_seeded_tmp.py")   # run from the worktree root so that its package is the one imported
    shutil.copy(demo_src, demo)
    ran = []
    sh(["git", "checkout", "--", "."], wt)
    shutil.copy(demo_src, demo)
    r = sh(["/venv/bin/python", demo], wt)
    ran.append(f"clean tree: demo rc={r.returncode}")
    if r.returncode != 0:
        print("REJECT: demo fails on the clean tree", r.stdout[-300:], r.stderr[-300:])
        return 1
    r = sh(["git", "apply", patch], wt)
    if r.returncode != 0:
        print("REJECT: patch does not apply", r.stderr[-300:])
        return 1
    try:
        t = sh(["/venv/bin/python", "-m", "pytest", "-q", "-p", "no:cacheprovider", "--no-header", "-rN",
                "-k", "not linkify", "--deselect", "tests/test_linkify.py"], wt)
        last = t.stdout.strip().splitlines()[-1] if t.stdout.strip() else f"rc={t.returncode}"
        ran.append(f"patched tree: pytest -> {last}")
        if t.returncode != 0 or "875 passed" not in last:
            print("REJECT: test suite does not pass with the change:", last)
            return 1
        r = sh(["/venv/bin/python", demo], wt)
        ran.append(f"patched tree: demo rc={r.returncode}")
        if r.returncode == 0:
            print("REJECT: demo passes with the change")
            return 1
        demo_tail = (r.stderr or r.stdout).strip().splitlines()[-1][:300]
    finally:
        sh(["git", "checkout", "--", "."], wt)
        sh(["git", "clean", "-fdq", "-e", "_seeded"], wt)
        if os.path.exists(demo):
            os.unlink(demo)
    dst = os.path.join(VERIF, "seeded", sid)
    os.makedirs(dst, exist_ok=True)
    shutil.copy(patch, os.path.join(dst, "patch.diff"))
    shutil.copy(demo_src, os.path.join(dst, "demo.py"))
    if os.path.exists(os.path.join(src, "README.txt")):
        shutil.copy(os.path.join(src, "README.txt"), os.path.join(dst, "README.txt"))
    json.dump({"id": sid, "property": prop, "breaks": prop, "needs_to_manifest": needs,
               "origin": f"independent sub-agent given only the property text and worktree {wt}",
               "confirmed_by_me": ran, "demo_failure": demo_tail,
               "checks_result": "see DESIGN.md section 13 / tools/mutants.py --seeded"},
              open(os.path.join(dst, "meta.json"), "w"), indent=1)
    print("IMPORTED", sid, "|", "; ".join(ran))
    return 0


if __name__ == "__main__":
    sys.exit(main())
