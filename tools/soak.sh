#!/bin/bash
# False-alarm soak on the unchanged tree: every quick check under a range of base seeds.
# usage: tools/soak.sh FIRST LAST   (run from /verif or a snapshot of it; writes evidence/replays under $VERIF_OUT)
cd "$(dirname "$0")/.."
export VERIF_OUT=${VERIF_OUT:-$(pwd)/tmp/soak-out}
mkdir -p "$VERIF_OUT"
bad=0
for seed in $(seq "$1" "$2"); do
  for p in C11 C12 C13 C14 C16; do
    out=$(VERIF_SEED=$seed ./check $p --tier quick 2>&1); rc=$?
    echo "seed=$seed $p rc=$rc $(echo "$out" | grep -E 'evaluations=' | cut -c1-90)"
    if [ $rc -ne 0 ]; then bad=1; echo "$out" | tail -15; fi
  done
done
echo "SOAK-DONE bad=$bad"
exit $bad
