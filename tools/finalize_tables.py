#!/venv/bin/python
"""After a full `tools/mutants.py --seeded --out seeded-final.json` / `--refactors --out refactors-final.json` run:
write what each seeded change was caught by into its meta.json and print the DESIGN.md tables."""
import json
import os
import re

VERIF = os.path.dirname(os.path.dirname(os.path.abspath(__file__)))


def main():
    rows = json.load(open(os.path.join(VERIF, "tmp", "seeded-final.json")))
    extra = {}
    for name in os.listdir(os.path.join(VERIF, "tmp")):
        if re.fullmatch(r"s-x\d+\.json", name):
            for r in json.load(open(os.path.join(VERIF, "tmp", name))):
                for cid, k in r["checks"].items():
                    if cid != r["property"] and k["rc"] == 1:
                        extra.setdefault(r["mutant"], {})[cid] = k
    out = []
    for r in rows:
        name, prop = r["mutant"], r["property"]
        mp = os.path.join(VERIF, "seeded", name, "meta.json")
        meta = json.load(open(mp))
        k = r["checks"][prop]
        m = re.search(r"run (\d+): (\w+)", k.get("detail", ""))
        if k["rc"] == 1:
            res = f"{prop} quick, run {m.group(1)}, {m.group(2)}" if m else f"{prop} quick"
        else:
            res = f"not caught by {prop} (rc={k['rc']})"
        for cid, kk in extra.get(name, {}).items():
            mm = re.search(r"run (\d+): (\w+)", kk.get("detail", ""))
            res += f"; {cid} quick, run {mm.group(1)}, {mm.group(2)}" if mm else f"; {cid} quick"
        meta["checks_result"] = res
        json.dump(meta, open(mp, "w"), indent=1)
        out.append((name, meta.get("needs_to_manifest", ""), res))

    def key(t):
        m = re.match(r"(C\d+)-s(\d+)", t[0])
        return (m.group(1), int(m.group(2)))
    out.sort(key=key)
    for name, needs, res in out:
        print(f"| {name} | {needs[:200]} | {res} |")
    rp = os.path.join(VERIF, "tmp", "refactors-final.json")
    if os.path.exists(rp):
        print()
        for r in json.load(open(rp)):
            quiet = all(v["rc"] == 0 for v in r["checks"].values())
            print(f"| {r['mutant']} | {'quiet: all five quick checks exit 0' if quiet else 'NOT QUIET: ' + str({c: v['rc'] for c, v in r['checks'].items()})} |")


if __name__ == "__main__":
    main()
