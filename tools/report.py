#!/venv/bin/python
"""Markdown rows for DESIGN.md from the JSON results of tools/mutants.py (tmp/<name>.json)."""
import json
import os
import re
import sys

VERIF = os.path.dirname(os.path.dirname(os.path.abspath(__file__)))


def main():
    rows = json.load(open(os.path.join(VERIF, "tmp", sys.argv[1])))
    for r in rows:
        if isinstance(r, list):
            print("|", r[0], "|", r[2], "|")
            continue
        name, prop = r["mutant"], r["property"]
        meta = {}
        mp = os.path.join(VERIF, "seeded", name, "meta.json")
        if os.path.exists(mp):
            meta = json.load(open(mp))
        cells = []
        for cid, k in r["checks"].items():
            m = re.search(r"run (\d+): (\w+)", k.get("detail", ""))
            if k["rc"] == 1:
                cells.append(f"{cid} quick, run {m.group(1)}, {m.group(2)}" if m else f"{cid} quick")
            elif k["rc"] == 0:
                if cid == prop:
                    cells.append(f"**missed by {cid}**")
            else:
                cells.append(f"{cid} rc={k['rc']} {k.get('tail', '')[:60]}")
        print(f"| {name} | {meta.get('needs_to_manifest', '')[:170]} | {'; '.join(cells)} |")


if __name__ == "__main__":
    main()
