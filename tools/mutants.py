#!/venv/bin/python
"""Sensitivity self-test (DESIGN.md 2.6): apply each /verif/mutants/<id>-*.patch (or a seeded change's
patch.diff) to a scratch copy of /repo outside /repo and /verif, run the pinned test suite there, then the
property's quick check with VERIF_REPO pointing at the copy; expect exit 1 and a replay that reproduces.

usage: tools/mutants.py [--only SUBSTR] [--runs N] [--no-tests] [--others] [--seeded]
"""
import argparse
import glob
import json
import os
import shutil
import subprocess
import sys
import tempfile
import time

VERIF = os.path.dirname(os.path.dirname(os.path.abspath(__file__)))
CLAIMED = ["C11", "C12", "C13", "C14", "C16"]


def sh(cmd, **kw):
    return subprocess.run(cmd, capture_output=True, text=True, **kw)


def main():
    ap = argparse.ArgumentParser()
    ap.add_argument("--only", default="")
    ap.add_argument("--runs", type=int, default=0, help="override VERIF_RUNS (0 = the quick budget)")
    ap.add_argument("--no-tests", action="store_true")
    ap.add_argument("--others", action="store_true", help="also run the other properties' checks (false-alarm look)")
    ap.add_argument("--seeded", action="store_true", help="use /verif/seeded/*/patch.diff instead of /verif/mutants")
    ap.add_argument("--refactors", action="store_true",
                    help="use /verif/refactors/*/patch.diff: behaviour-preserving changes, EVERY check must stay quiet")
    ap.add_argument("--tier", default="quick")
    ap.add_argument("--out", default="mutants-last.json")
    ap.add_argument("--with", dest="extra", default="", help="comma-separated extra checks to run besides the own one")
    ap.add_argument("--checks", default="", help="comma-separated: run exactly these checks (refactor mode)")
    a = ap.parse_args()
    if a.refactors:
        a.others = True
        items = [(os.path.basename(d), "C11", os.path.join(d, "patch.diff"))
                 for d in sorted(glob.glob(os.path.join(VERIF, "refactors", "*")))]
    elif a.seeded:
        items = []
        for d in sorted(glob.glob(os.path.join(VERIF, "seeded", "*"))):
            meta = json.load(open(os.path.join(d, "meta.json")))
            items.append((os.path.basename(d), meta["property"], os.path.join(d, "patch.diff")))
    else:
        items = [(os.path.basename(p)[:-6], os.path.basename(p).split("-")[0], p)
                 for p in sorted(glob.glob(os.path.join(VERIF, "mutants", "*.patch")))]
    items = [it for it in items if a.only in it[0]]
    # run from a snapshot of /verif, so that editing the engines while this (long) tool runs cannot mix versions
    snap = tempfile.mkdtemp(prefix="snap-", dir=os.path.join(VERIF, "tmp"))
    sh(["rsync", "-a", "--exclude", ".git", "--exclude", "tmp", "--exclude", "__pycache__", "--exclude", "replays",
        "--exclude", "evidence", "--exclude", "seeded", "--exclude", "mutants", VERIF + "/", snap + "/"])
    check_cmd = os.path.join(snap, "check")
    results = []
    try:
        _run_items(a, items, results, check_cmd)
    finally:
        shutil.rmtree(snap, ignore_errors=True)
    json.dump(results, open(os.path.join(VERIF, "tmp", a.out), "w"), indent=1, default=str)


def _run_items(a, items, results, check_cmd):
    for name, prop, patch in items:
        scratch = tempfile.mkdtemp(prefix=f"mut-{name}-", dir="/tmp")
        out = tempfile.mkdtemp(prefix=f"mutout-{name}-", dir="/tmp")
        try:
            sh(["rsync", "-a", "--exclude", ".git", "--exclude", "__pycache__", "/repo/", scratch + "/"])
            p = sh(["patch", "-p1", "-i", patch], cwd=scratch)
            if p.returncode != 0:
                results.append((name, prop, "PATCH-FAILED", p.stdout[-300:]))
                continue
            tests = "skipped"
            if not a.no_tests:
                t = sh(["/venv/bin/python", "-m", "pytest", "-q", "-p", "no:cacheprovider", "--no-header", "-rN",
                        "-x", "--deselect", "tests/test_linkify.py", "-k", "not linkify"], cwd=scratch,
                       env={**os.environ, "PYTHONDONTWRITEBYTECODE": "1"})
                tests = t.stdout.strip().splitlines()[-1] if t.stdout.strip() else f"rc={t.returncode}"
            row = {"mutant": name, "property": prop, "tests": tests, "checks": {}}
            extra = [c for c in a.extra.split(",") if c and c != prop]
            todo = [prop] + ([c for c in CLAIMED if c != prop] if a.others else extra)
            if a.checks:
                todo = [c for c in a.checks.split(",") if c]
                prop = todo[0]
            for cid in todo:
                env = {**os.environ, "VERIF_REPO": scratch, "VERIF_OUT": out}
                if a.runs:
                    env["VERIF_RUNS"] = str(a.runs)
                t0 = time.time()
                c = sh([check_cmd, cid, "--tier", a.tier], env=env)
                viol = [ln for ln in c.stdout.splitlines() if ln.startswith("VIOLATION")]
                detail = [ln for ln in c.stdout.splitlines() if "] run " in ln][:1]
                row["checks"][cid] = {"rc": c.returncode, "violation": bool(viol), "wall_s": round(time.time() - t0, 1),
                                      "detail": (detail[0][:260] if detail else ""),
                                      "tail": c.stdout.strip().splitlines()[-1][:200] if c.returncode not in (0, 1) else ""}
            results.append(row)
            k = row["checks"][prop]
            if a.refactors:
                quiet = all(v["rc"] == 0 for v in row["checks"].values())
                print(f"{name:45s} tests[{tests[:40]}] {'QUIET (all checks rc=0)' if quiet else 'FALSE-ALARM-OR-ERROR'}",
                      flush=True)
            else:
                print(f"{name:45s} tests[{tests[:40]}] {prop}: rc={k['rc']} {'KILLED' if k['rc'] == 1 else 'MISSED'} "
                      f"{k['wall_s']}s {k['detail'][:150]}", flush=True)
            for cid, k in row["checks"].items():
                if cid != prop:
                    print(f"    other {cid}: rc={k['rc']} {k['detail'][:120]} {k['tail']}", flush=True)
        finally:
            shutil.rmtree(scratch, ignore_errors=True)
            shutil.rmtree(out, ignore_errors=True)


if __name__ == "__main__":
    os.makedirs(os.path.join(VERIF, "tmp"), exist_ok=True)
    main()
