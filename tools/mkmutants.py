#!/venv/bin/python
"""Regenerate /verif/mutants/*.patch from substitution specs against /repo's HEAD (DESIGN.md 2.6).
Each mutant is a small, compiling breakage of one claimed property that the pinned test suite does not notice.
Reverts of the three fix: commits are kept as hand-made patches (C1x-revert-fix.patch) and not touched here.
"""
import os
import shutil
import subprocess
import tempfile

VERIF = os.path.dirname(os.path.dirname(os.path.abspath(__file__)))
M = []  # (name, file, old, new)


def mut(name, file, old, new, count=1):
    M.append((name, [(file, old, new, count)]))


def mut2(name, subs):
    M.append((name, subs))


R = "markdown_it/ruler.py"
MAIN = "markdown_it/main.py"

# ---------------------------------------------------------------- C11
mut("C11-at-no-invalidate", R,
    '        self.__rules__[index].alt = options.get("alt", [])\n        self.__cache__ = None\n',
    '        self.__rules__[index].alt = options.get("alt", [])\n')
mut("C11-before-no-invalidate", R,
    '''            index, Rule[RuleFuncTv](ruleName, True, fn, options.get("alt", []))
        )
        self.__cache__ = None
''', '''            index, Rule[RuleFuncTv](ruleName, True, fn, options.get("alt", []))
        )
''')
mut("C11-disable-invalidate-only-when-changed", R,
    '''        result = []
        # invalidate first: a KeyError below must not leave a stale compiled chain
        self.__cache__ = None
        for name in names:
            idx = self.__find__(name)
            if (idx < 0) and ignoreInvalid:
                continue
            if (idx < 0) and not ignoreInvalid:
                raise KeyError(f"Rules manager: invalid rule name {name}")
            self.__rules__[idx].enabled = False
            result.append(name)
''', '''        result = []
        for name in names:
            idx = self.__find__(name)
            if (idx < 0) and ignoreInvalid:
                continue
            if (idx < 0) and not ignoreInvalid:
                self.__cache__ = None
                raise KeyError(f"Rules manager: invalid rule name {name}")
            self.__rules__[idx].enabled = False
            result.append(name)
        if len(result) == len(names):
            self.__cache__ = None
''')
mut("C11-compile-unknown-chain-serves-main", R,
    '        return self.__cache__.get(chainName, []) or []\n',
    '        return self.__cache__.get(chainName) or self.__cache__[""]\n')
mut("C11-after-inserts-before-when-last", R,
    '''            index + 1, Rule[RuleFuncTv](ruleName, True, fn, options.get("alt", []))''',
    '''            min(index + 1, len(self.__rules__) - 1),
            Rule[RuleFuncTv](ruleName, True, fn, options.get("alt", [])),''')
mut("C11-enableOnly-empty-noop", R,
    '''        for rule in self.__rules__:
            rule.enabled = False
        return self.enable(names, ignoreInvalid)''',
    '''        if not names:
            return []
        for rule in self.__rules__:
            rule.enabled = False
        return self.enable(names, ignoreInvalid)''')
mut("C11-facade-disable-skips-ruler2", MAIN,
    '''            result.extend(self[chain].ruler.disable(names, True))
        result.extend(self.inline.ruler2.disable(names, True))
''', '''            result.extend(self[chain].ruler.disable(names, True))
        if not result:
            result.extend(self.inline.ruler2.disable(names, True))
''')
mut("C11-enable-dedup-cache-keep", R,
    '''        # invalidate first: a KeyError below must not leave a stale compiled chain
        self.__cache__ = None
        for name in names:
            idx = self.__find__(name)
            if (idx < 0) and ignoreInvalid:
                continue
            if (idx < 0) and not ignoreInvalid:
                raise KeyError(f"Rules manager: invalid rule name {name}")
            self.__rules__[idx].enabled = True
            result.append(name)
        return result''',
    '''        changed = False
        for name in names:
            idx = self.__find__(name)
            if (idx < 0) and ignoreInvalid:
                continue
            if (idx < 0) and not ignoreInvalid:
                self.__cache__ = None
                raise KeyError(f"Rules manager: invalid rule name {name}")
            changed = changed or not self.__rules__[idx].enabled
            self.__rules__[idx].enabled = True
            result.append(name)
        if changed:
            # skip the recompilation when nothing changed
            self.__cache__ = None
        return result''')

# ---------------------------------------------------------------- C12
mut("C12-configure-merges-into-preset", MAIN,
    '            options = {**options, **options_update}  # type: ignore\n',
    '            options.update(options_update)  # type: ignore\n')
mut2("C12-renderer-rules-on-class", [
    ("markdown_it/renderer.py", '''    def __init__(self, parser: Any = None):
        self.rules = {
            k: v
            for k, v in inspect.getmembers(self, predicate=inspect.ismethod)
            if not (k.startswith("render") or k.startswith("_"))
        }
''', '''    _rules_cache: ClassVar[dict[str, Any]] = {}

    def __init__(self, parser: Any = None):
        if not self._rules_cache:
            # collecting the members is slow: do it once per class
            self._rules_cache.update(
                {
                    k: v.__func__
                    for k, v in inspect.getmembers(self, predicate=inspect.ismethod)
                    if not (k.startswith("render") or k.startswith("_"))
                }
            )
        self.rules = self._rules_cache
        for k, v in list(self.rules.items()):
            if not hasattr(v, "__self__"):
                self.rules[k] = v.__get__(self)
''', 1)])
mut2("C12-backticks-class-attr", [
    ("markdown_it/rules_inline/state_inline.py", '''class StateInline(StateBase):
    def __init__(''', '''class StateInline(StateBase):
    # backticklength => last seen position
    backticks: dict[int, int] = {}  # noqa: RUF012

    def __init__(''', 1),
    ("markdown_it/rules_inline/state_inline.py", '''        # backticklength => last seen position
        self.backticks: dict[int, int] = {}
        self.backticksScanned = False''', '''        self.backticksScanned = False''', 1)])
mut("C12-set-keeps-optionsdict", MAIN,
    '        self.options = OptionsDict(options)\n',
    '        # no need to copy what already is an OptionsDict\n'
    '        self.options = options if isinstance(options, OptionsDict) else OptionsDict(options)\n')
mut2("C12-table-align-attrs-shared", [
    ("markdown_it/rules_block/table.py", """    for i in range(len(columns)):
        token = state.push("th_open", "th", 1)
        if aligns[i]:
            token.attrs = {"style": "text-align:" + aligns[i]}
""", """    for i in range(len(columns)):
        token = state.push("th_open", "th", 1)
        if aligns[i]:
            token.attrs = _ALIGN_ATTRS[aligns[i]]
""", 1),
    ("markdown_it/rules_block/table.py", """def getLine(state: StateBlock, line: int) -> str:""",
     """# the three possible attribute dicts of aligned cells, built once
_ALIGN_ATTRS = {a: {"style": "text-align:" + a} for a in ("left", "center", "right")}


def getLine(state: StateBlock, line: int) -> str:""", 1)])
# ---------------------------------------------------------------- C13
mut2("C13-block-state-on-parser", [
    ("markdown_it/parser_block.py", '''        state = StateBlock(src, md, env, outTokens)
        self.tokenize(state, state.line, state.lineMax)
        return state.tokens''', '''        self.state = StateBlock(src, md, env, outTokens)
        self.tokenize(self.state, self.state.line, self.state.lineMax)
        return self.state.tokens''', 1)])
mut2("C13-renderer-result-on-self", [
    ("markdown_it/renderer.py", '''        result = ""

        for i, token in enumerate(tokens):
            if token.type == "inline":
                if token.children:
                    result += self.renderInline(token.children, options, env)
            elif token.type in self.rules:
                result += self.rules[token.type](tokens, i, options, env)
            else:
                result += self.renderToken(tokens, i, options, env)

        return result
''', '''        self._out = ""

        for i, token in enumerate(tokens):
            if token.type == "inline":
                if token.children:
                    self._out += self.renderInline(token.children, options, env)
            elif token.type in self.rules:
                self._out += self.rules[token.type](tokens, i, options, env)
            else:
                self._out += self.renderToken(tokens, i, options, env)

        return self._out
''', 1)])
mut2("C13-balance-pairs-module-scratch", [
    ("markdown_it/rules_inline/balance_pairs.py", '''def processDelimiters(state: StateInline, delimiters: list[Delimiter]) -> None:
    """For each opening emphasis-like marker find a matching closing one."""
    if not delimiters:
        return

    openersBottom = {}
''', '''_OPENERS_BOTTOM: dict[int, list[int]] = {}


def processDelimiters(state: StateInline, delimiters: list[Delimiter]) -> None:
    """For each opening emphasis-like marker find a matching closing one."""
    if not delimiters:
        return

    # reuse one scratch dict instead of allocating one per delimiter run
    openersBottom = _OPENERS_BOTTOM
    openersBottom.clear()
''', 1)])

# ---------------------------------------------------------------- C14
mut("C14-reset-except-Exception", MAIN,
    '''        try:
            yield
        finally:
            for chain, rules in chain_rules.items():
                if chain != "inline2":
                    self[chain].ruler.enableOnly(rules)
            self.inline.ruler2.enableOnly(chain_rules["inline2"])
''', '''        def restore() -> None:
            for chain, rules in chain_rules.items():
                if chain != "inline2":
                    self[chain].ruler.enableOnly(rules)
            self.inline.ruler2.enableOnly(chain_rules["inline2"])

        try:
            yield
        except Exception:
            restore()
            raise
        else:
            restore()
''')
mut("C14-reset-skips-inline2-on-error", MAIN,
    '''        try:
            yield
        finally:
            for chain, rules in chain_rules.items():
                if chain != "inline2":
                    self[chain].ruler.enableOnly(rules)
            self.inline.ruler2.enableOnly(chain_rules["inline2"])
''', '''        try:
            yield
        finally:
            for chain, rules in chain_rules.items():
                if chain != "inline2":
                    self[chain].ruler.enableOnly(rules)
        self.inline.ruler2.enableOnly(chain_rules["inline2"])
''')
mut2("C14-highlight-toggles-option", [
    ("markdown_it/renderer.py", '''        if options.highlight:
            highlighted = options.highlight(
                token.content, langName, langAttrs
            ) or escapeHtml(token.content)
''', '''        if options.highlight:
            # highlighters emit their own markup: keep the xhtml flag out of their way
            xhtml = options["xhtmlOut"]
            options["xhtmlOut"] = False
            highlighted = options.highlight(
                token.content, langName, langAttrs
            ) or escapeHtml(token.content)
            options["xhtmlOut"] = xhtml
''', 1)])
mut2("C14-image-disables-link-rule", [
    ("markdown_it/rules_inline/image.py", '''        tokens: list[Token] = []
        state.md.inline.parse(content, state.md, state.env, tokens)
''', '''        tokens: list[Token] = []
        # links are not allowed inside image descriptions anyway
        state.md.inline.ruler.disable("autolink")
        state.md.inline.parse(content, state.md, state.env, tokens)
        state.md.inline.ruler.enable("autolink")
''', 1)])
mut2("C14-core-swallows-rule-errors", [
    ("markdown_it/parser_core.py", '''        for rule in self.ruler.getRules(""):
            rule(state)''', '''        for rule in self.ruler.getRules(""):
            try:
                rule(state)
            except StopIteration:
                # a rule may signal that the remaining pipeline should be skipped
                break''', 1)])
mut2("C14-skiptoken-level-on-parser", [
    ("markdown_it/parser_inline.py", '''        if state.level < maxNesting:
            for rule in rules:
                #  Increment state.level and decrement it later to limit recursion.
                # It's harmless to do here, because no tokens are created.
                # But ideally, we'd need a separate private state variable for this purpose.
                state.level += 1
                ok = rule(state, True)
                state.level -= 1
                if ok:
                    break''', '''        if state.level + self._skip_depth < maxNesting:
            for rule in rules:
                # a separate private counter limits recursion while skipping
                self._skip_depth += 1
                ok = rule(state, True)
                self._skip_depth -= 1
                if ok:
                    break''', 1),
    ("markdown_it/parser_inline.py", '''        for name, rule2 in _rules2:
            self.ruler2.push(name, rule2)
''', '''        for name, rule2 in _rules2:
            self.ruler2.push(name, rule2)
        self._skip_depth = 0
''', 1)])

# ---------------------------------------------------------------- C16
REF = "markdown_it/rules_block/reference.py"
mut("C16-duplicates-not-recorded-when-same", REF,
    '''    else:
        state.env.setdefault("duplicate_refs", []).append(''',
    '''    elif state.env["references"][label]["href"] != href:
        state.env.setdefault("duplicate_refs", []).append(''')
mut("C16-link-lookup-strips-differently", "markdown_it/rules_inline/link.py",
    '        label = normalizeReference(label)\n',
    '        label = normalizeReference(label.replace("\\n", ""))\n')
mut("C16-map-off-by-one-multiline", REF,
    '''            "map": [startLine, state.line],
        }
    else:''', '''            "map": [startLine, nextLine],
        }
    else:''')

mut("C16-image-lookup-own-normalisation", "markdown_it/rules_inline/image.py",
    '        label = normalizeReference(label)\n',
    '        label = " ".join(label.split()).upper()\n')
mut("C16-later-parse-lower-line-overrides", REF,
    '    if label not in state.env["references"]:\n',
    '    if label not in state.env["references"] or state.env["references"][label]["map"][0] > startLine:\n')
mut("C16-dup-recorded-only-first-time", REF,
    """    else:
        state.env.setdefault("duplicate_refs", []).append(""",
    """    elif not any(d["label"] == label for d in state.env.get("duplicate_refs", [])):
        state.env.setdefault("duplicate_refs", []).append(""")


def main():
    outdir = os.path.join(VERIF, "mutants")
    os.makedirs(outdir, exist_ok=True)
    ok = 0
    for name, subs in M:
        scratch = tempfile.mkdtemp(prefix="mkmut-", dir="/tmp")
        try:
            subprocess.run(["git", "-C", "/repo", "archive", "--format=tar", "HEAD", "markdown_it"], check=True,
                           stdout=open(os.path.join(scratch, "a.tar"), "wb"))
            for side in ("a", "b"):
                os.makedirs(os.path.join(scratch, side))
                subprocess.run(["tar", "-xf", os.path.join(scratch, "a.tar"), "-C", os.path.join(scratch, side)], check=True)
            bad = False
            for file, old, new, count in subs:
                p = os.path.join(scratch, "b", file)
                s = open(p).read()
                if s.count(old) != count:
                    print(f"!! {name}: pattern occurs {s.count(old)}x in {file} (expected {count})")
                    bad = True
                    break
                open(p, "w").write(s.replace(old, new))
            if bad:
                continue
            # must compile
            for file, *_ in subs:
                r = subprocess.run(["/venv/bin/python", "-m", "py_compile", os.path.join(scratch, "b", file)],
                                   capture_output=True, text=True)
                if r.returncode:
                    print(f"!! {name}: does not compile: {r.stderr[-300:]}")
                    bad = True
            if bad:
                continue
            d = subprocess.run(["diff", "-ruN", "a", "b", "-x", "__pycache__"], cwd=scratch, capture_output=True, text=True)
            open(os.path.join(outdir, name + ".patch"), "w").write(d.stdout)
            ok += 1
        finally:
            shutil.rmtree(scratch, ignore_errors=True)
    print(f"{ok}/{len(M)} mutants written")


if __name__ == "__main__":
    main()
